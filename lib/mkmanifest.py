#!/usr/bin/env python3
"""Writes /verif/MANIFEST.json from the table below (kept in one place so the
manifest stays valid and in step with the checks that exist)."""
import json
import os
import subprocess

VERIF = os.path.dirname(os.path.dirname(os.path.abspath(__file__)))

CHECKS = {
    "C01": dict(
        technique="runtime differential monitor: real update + real calls on generated registries vs. reference oracle; ASan+UBSan",
        text="Exploration: every legal argument tuple of randomly generated registries (graphs with multiple inheritance, "
             "all signature shapes of arity 1-4, 11 stock facet configurations) is dispatched through the real "
             "method::operator() and resolve() and the body that runs is compared with an independent oracle; the same "
             "workload runs under ASan+UBSan. Held-on-K-executions, not a proof.",
        design="5/C01"),
    "C02": dict(
        technique="runtime monitor on error handlers (vectored, call_error, throw_error, forked returning handler) vs. oracle",
        text="Exploration: every unresolvable tuple of generated registries is called; the resolution_error delivered to "
             "the handler (status, arity, type ids) is compared with the oracle; handlers that return are run in forked "
             "children that must die by SIGABRT without a definition event.",
        design="5/C02"),
    "C03": dict(
        technique="runtime monitor on the next pointers stored by update (poisoned slots) vs. oracle",
        text="Exploration: after every update the pointer stored through definition_info::next of every definition is "
             "compared with the oracle's next (definition / not_implemented / ambiguous); slots are poisoned first so a "
             "value that was not recomputed is visible.",
        design="5/C03"),
    "C04": dict(
        technique="shadow bounds-checked table walk over installed dispatch data + ASan on the real walk",
        text="Exploration: after update a bounds-checked shadow of the documented table walk checks slot uniqueness per "
             "class, v-table extents, cell ownership and that every address lies in the policy's dispatch data, on "
             "lattice-heavy generated registries; ASan/UBSan watch the real update and resolve.",
        design="5/C04"),
    "C05": dict(
        technique="runtime invariant monitor on the installed hash (injectivity, range, control table, probes) + budget fault hook",
        text="Exploration with fault injection: hash_initialize is driven directly and through update with histories of "
             "id sets of every flavour and size 0-600; after each successful install injectivity, range and the checked "
             "variant's rejection of unregistered probes are verified; the guarded budget hook forces the exhaustion "
             "branch, which must report hash_search_error / abort, never install a colliding hash.",
        design="5/C05"),
    "C06": dict(
        technique="runtime differential monitor across permutations of registration order (behaviour tables)",
        text="Exploration: the same registry is registered under all (small) or sampled permutations of class, method and "
             "definition order; the complete behaviour tables of the real library (calls, error reports, next) must be "
             "identical.",
        design="5/C06"),
    "C07": dict(
        technique="runtime monitor over random registration histories vs. stateless oracle and fresh re-materialisation",
        text="Exploration: random add/remove/update histories through the library's own list operations and destructor "
             "logic; after every update the behaviour table equals the oracle on the live registrations; repeated update "
             "changes nothing; deferred, hashed, unhashed policies.",
        design="5/C07"),
    "C08": dict(
        technique="runtime differential monitor across presentations of one inheritance graph + slot monitor",
        text="Exploration: one graph registered under 8-20 legal presentations; behaviour table equals the oracle's on "
             "the true graph and no two (method, parameter) pairs share a v-table cell.",
        design="5/C08"),
    "C09": dict(
        technique="runtime monitor on virtual_ptr routes (construction, conversion, copy, move, final, shared) vs. plain-reference dispatch",
        text="Exploration: every construction route of virtual_ptr / virtual_shared_ptr on generated registries, calls "
             "compared with the plain-reference outcome, accessors compared with the object's address, validity across "
             "a later update for direct and indirect policies.",
        design="5/C09"),
    "C10": dict(
        technique="runtime differential monitor across RTTI facets / id flavours (behaviour tables)",
        text="Exploration: one registry under integer, pointer, strided, high-bit, random, aliased (projection) and "
             "deferred ids, hashed / unhashed / map, 1-3 updates: every table equals the oracle's, every alias id reaches "
             "its class.",
        design="5/C10"),
    "C12": dict(
        technique="runtime monitor on generator output (parsed text vs installed offsets) + checked-policy fault injection on static offsets",
        text="Exploration with fault injection: the real write_static_offsets output is parsed and compared position by "
             "position with the installed slots and strides for arity 1-4; methods compiled with a static_offsets "
             "specialisation dispatch with the generated numbers (compared with the oracle); under checked policies "
             "each perturbed position must raise static_slot_error / static_stride_error; samples of the text are "
             "compiled with g++ and clang++; a generated program with strides above 65535 (42-45 groups per dimension) "
             "repeats the comparison through the public API.",
        design="5/C12"),
    "C13": dict(
        technique="runtime monitor: real decoder run on checked-iterator proxies (bounds, read-ahead) + behaviour comparison; sample texts compiled",
        text="Exploration: the real encoder output is parsed and fed to the real decode_dispatch_data instantiated on a "
             "Data of bounds-checked iterator proxies (per-array bounds, no store over an unread code) in a world that "
             "forgot its installed tables; calls after decoding must equal calls after update; emitted texts compiled "
             "verbatim by both compilers.",
        design="5/C13"),
    "C14": dict(
        technique="runtime monitor: snapshot/compare of every other policy's observable state and behaviour around each operation",
        text="Exploration: random interleavings of operations over 2-3 policies sharing class ids; the complete "
             "observable state and behaviour of the untouched policies is compared before/after every operation; "
             "generated programs put 2-5 policies (the stock ones side by side, rebind-first and rebind-last derivations) "
             "through the public front-end with shared keys, signatures and definition functions.",
        design="5/C14"),
    "C15": dict(
        technique="runtime fault enumeration: each class left out at each place, every argument route; error reports monitored",
        category="fault_enumeration",
        text="Fault enumeration: for generated registries each class in turn is left unregistered at each place it can "
             "occur (listed base, method parameter, definition parameter, dynamic argument class at each virtual position) "
             "and every argument route is driven under the checked policies; the handler must receive "
             "unknown_class_error with that id (method_table_error for final) before any definition event or null "
             "v-table pointer.",
        design="5/C15"),
    "C16": dict(
        technique="ThreadSanitizer on a multi-threaded stress workload + per-thread comparison with sequential answers",
        text="Exploration: 4-16 threads dispatch through every route, resolve, build / copy / move / convert "
             "virtual_ptrs and take erroring calls on 2-3 policies while another thread registers, updates and calls "
             "an unrelated policy with the same class ids; every result is compared with the answer computed "
             "single-threaded and the whole runs under ThreadSanitizer (reports de-duplicated by outermost yomm2 frame); "
             "overlap actually observed is recorded; generated multi-threaded programs repeat this on the stock policies "
             "through the public API (callers on default_policy, an updater on another stock / derived policy, TSan fatal).",
        design="5/C16"),
    "C18": dict(
        technique="model-based runtime monitor: static_list vs vector model, exhaustive bounded enumeration + random sequences + real catalogs",
        text="Exhaustive enumeration of every legal push/remove/clear sequence up to length 9 over 4 nodes (10 over 5 in "
             "thorough) against a vector model, plus random long sequences and the policy's real catalogs driven through "
             "the registration operations, ASan/UBSan and BOOST_ASSERT on.",
        design="5/C18"),
    "C19": dict(
        technique="runtime monitor: parser over the generator's forward declarations vs expected name set; samples compiled",
        text="Exploration: random name sets with adversarial prefixes and grammar-generated type descriptions are given "
             "to the real generator; its output is parsed and the declared qualified names compared with the expected "
             "set; samples are compiled by g++ and clang++.",
        design="5/C19"),
    "C11": dict(
        engine="tierb",
        technique="self-checking generated programs (public API) run under ASan+UBSan: argument identity, address adjustment, ownership, copy/move counters",
        text="Exploration: generated programs over parameter kind x inheritance shape x position x non-virtual category "
             "x return kind; each definition body compares what it receives with what the caller recorded "
             "(static_cast computed by the compiler, owner_before, copy / move counters); ASan / UBSan(vptr) watch the "
             "casts in the thunks; reach is bounded by C++ compile time (programs, not registries).",
        design="5/C11"),
    "C20": dict(
        engine="tierb",
        technique="self-checking generated programs: the method's run-time catalog vs the generator's table, product order static_asserted",
        text="Exploration: generated programs instantiate use_definitions over products of 1-1089 combinations with "
             "several not_defined patterns; at run time the registered definitions are enumerated and compared with "
             "the table, every combination is dispatched; sizes on both sides of the 512-element aggregate split; "
             "products over 1-4 lists of every shape (one-element lists, repeated types, elements that are themselves "
             "type lists) are compared at compile time with the product computed by the generator.",
        design="5/C20"),
    "C17": dict(
        technique="runtime monitor: update report vs. exhaustive oracle enumeration of argument tuples",
        text="Exploration: the report returned by the real update is compared with an exhaustive enumeration of all "
             "tuples of acceptable classes (all / concrete only) by the oracle, and cells with the tables actually built.",
        design="5/C17"),
}

NOT_YET = {
}

LEVEL_NOTE = ("Trusted base: the reference oracle in harness/common.hpp (written from the documentation), the harness' "
              "materialisation of registries into yomm2's registration records, g++ 12 / clang 14 and their sanitizer "
              "runtimes. Verdict is 'held on the executions observed' (counts in the evidence file).")


def main():
    props = [json.loads(l)["id"] for l in open(os.path.join(VERIF, "properties.jsonl"))]
    try:
        commits = subprocess.run(["git", "-C", "/repo", "log", "--format=%h %s", "--grep", "JLL63_YOMM2_VERIF"],
                                 stdout=subprocess.PIPE, text=True).stdout.split("\n")
        hooks = [c.split()[0] for c in commits if c.strip()]
    except OSError:
        hooks = []
    m = {
        "version": 1,
        "setup_cmd": "bin/setup",
        "hooks": {
            "guard": "JLL63_YOMM2_VERIF",
            "enable": "checks compile their harness against $VERIF_REPO/include (default /repo) with -DJLL63_YOMM2_VERIF",
            "baseline_off_cmd": "bin/baseline_off",
            "source_commits": hooks,
            "add_only": True,
        },
        "engines": [
            {"name": "harness", "path": "harness/", "serves_properties": sorted(k for k in CHECKS if CHECKS[k].get("engine", "harness") == "harness"),
             "kind_free_text": "C++ runtime-monitoring harness (dynamic registries over the real yomm2 update/call path), "
                               "built per sanitizer flavour; driver bin/check"},
            {"name": "tierb", "path": "lib/tierb.py", "serves_properties": ["C11", "C20"],  # (also the tier-B halves of C01-C03, C07-C10, C12, C14-C17: see DESIGN.md 0.1)
             "kind_free_text": "Python generators of self-checking C++ programs using only the public API, compiled with clang/gcc sanitizers"},
        ],
        "checks": [],
        "not_applicable": [],
        "notes": "All checks: bin/check <ID> --tier quick|thorough; env VERIF_SEED, VERIF_REPO honoured; "
                 "known findings in known_findings.txt; design in DESIGN.md.",
    }
    for p in props:
        if p in CHECKS:
            c = CHECKS[p]
            m["checks"].append({
                "property_id": p,
                "quick_cmd": "bin/check %s --tier quick" % p,
                "thorough_cmd": "bin/check %s --tier thorough" % p,
                "evidence_file": "evidence/%s.json" % p,
                "replay_cmd_template": "bin/check %s --replay {path}" % p,
                "engine": c.get("engine", "harness"),
                "level_claimed": {"category": c.get("category", "exploration"), "text": c["text"],
                                  "design_ref": "DESIGN.md section " + c["design"]},
                "level_note": LEVEL_NOTE + c.get("note", ""),
                "technique": c["technique"],
            })
        else:
            m["not_applicable"].append({"property_id": p, "reason": NOT_YET.get(
                p, "check under construction in this session (runtime monitor designed in DESIGN.md section 5, not yet registered)")})
    with open(os.path.join(VERIF, "MANIFEST.json"), "w") as f:
        json.dump(m, f, indent=1)
        f.write("\n")


if __name__ == "__main__":
    main()

"""Per-property plans: which harness jobs (flavour, cases, seeds) make up the
quick and the thorough check, the rule used to count non-trivial cases, and the
assumptions.  Case counts bound every run (never wall-clock)."""
from vfcheck import Check, Job, seeds

COMMON_ASSUMPTIONS = [
    "oracle.hpp-equivalent reference model in harness/common.hpp (Oracle) is the trusted base: it is written from the "
    "documentation and the property statements and shares no code with compiler.hpp",
    "tier A bypasses the template front-end: class_info / definition_info records are populated by the harness exactly "
    "as class_declaration / add_function would, real method<> objects, real update<Policy>() and real call path",
    "g++ 12 / clang 14, x86-64 Linux only; graphs <= 96 classes, arity <= 4",
]

RULES = {
    "C01": "random registries (12 graph generators x 6 presentations x 6 id flavours x 11 policy worlds); every legal "
           "tuple (<= cap) called through operator() and resolve(); a case is non-trivial when the graph has multiple "
           "inheritance or the definitions contain an incomparable pair; distinct = distinct (registry hash, world)",
    "C02": "as C01 but only unresolvable tuples are judged: status/arity/type ids of the resolution_error compared with "
           "the oracle and the dynamic ids of exactly the virtual arguments, through the vectored handler, the "
           "deprecated call_error hook, the throw_error facet and (forked) handlers that return; non-trivial = registry "
           "with at least one erroring call; distinct = (registry hash, world)",
    "C03": "after each update the harness-owned next slot of every definition (poisoned beforehand) is compared with "
           "the oracle's next; non-trivial = MI graph or incomparable definitions",
    "C04": "shadow walk over installed state: per class slot uniqueness over all applicable (method, parameter) pairs, "
           "slot inside the class's own v-table extent, cell owned by that pair, addresses inside dispatch_data, "
           "multi-method address arithmetic inside the method's table; non-trivial = MI graph with >= 2 methods",
    "C05": "direct histories of hash_initialize on synthetic id sets (clustered pointers, strides, high-bit, small "
           "integers, random 64-bit, type_info-like; sizes 0-600; grow / shrink / disjoint / empty / repeated steps on the "
           "same policy), through full update on registries, with the guarded budget hook (1-50 attempts) and forked "
           "exhaustion with a returning handler; after every successful install: injective, in range, control table "
           "consistent, unregistered probes (neighbours, bit flips, stale ids, ids inverted to land in occupied and "
           "empty buckets, 0, invalid_type) rejected with their own id; distinct = distinct id sets of size >= 2",
    "C06": "one abstract registry materialised under all (small) or sampled permutations of its class-record, method "
           "and definition registration orders; complete behaviour tables (every call outcome incl. reported ids, every "
           "next) compared pairwise; non-trivial = MI graph or incomparable definitions; distinct = registry hash",
    "C07": "random histories (5-40 operations) over a pool registry: add / remove class records (with everything that "
           "depends on them, as unloading a library), attach / detach real method objects, add / remove definitions "
           "(what ~definition_info does), update, update twice; after each update the complete behaviour table (calls, "
           "reported errors, next) is compared with the stateless oracle on the registrations live at that point, a "
           "repeated update must leave table and slots/strides unchanged, and a third of the histories are compared "
           "with a hard-reset re-materialisation; eager, deferred, hashed, unhashed, map, indirect policies; "
           "distinct = distinct (registry, operation log) with >= 2 updates",
    "C08": "one graph materialised under 8-20 presentations (complete+self, direct only, direct+some indirect, "
           "duplicated, split over several records, mixed) each satisfying the precondition; behaviour table compared "
           "with the oracle on the true graph, plus the C04 slot/extent monitor; non-trivial = graph with at least one "
           "indirect base",
    "C09": "registries restricted to signature shapes with virtual_ptr / virtual_shared_ptr parameters; every tuple is "
           "called with each construction route (from reference: shortcut and lookup branch, final, converting copy / "
           "move from virtual_ptr<NodeD> with a non-zero base offset, copy, move, from a derived C++ object) and "
           "compared with what the plain-reference call runs (oracle); get / * / -> / v-table pointer probed for every "
           "class x route x plain/shared; then more methods and definitions are registered and update runs again: "
           "indirect policies use the pointers created before, direct policies re-create them; distinct = (registry, world)",
    "C10": "one registry materialised under 12 (policy, id flavour) combinations: integer ids, type_info pointers, "
           "strides, high-bit ids, random 64-bit, many-to-one projection with every alias id carried by objects, "
           "deferred ids; 1-3 updates each; tables compared with the oracle; distinct = registry hash",
    "C12": "the real generator::write_static_offsets runs on every generated registry; its text is parsed and compared "
           "position by position with method::slots_strides and the compiler's slots / strides (arity 1-4); methods of "
           "the static-offsets instance then dispatch with the parsed numbers and are compared with the oracle; under "
           "checked policies one position is perturbed and the call must raise static_slot_error / static_stride_error "
           "before any definition runs; a sample of texts is compiled with g++ and clang++; non-trivial = registry "
           "with a method of arity >= 3",
    "C13": "the real encode_dispatch_data runs on the compiler object of every generated registry (classes without "
           "v-table, first used slot != 0, error cells, arity 1-4, classes registered several times); the text is "
           "parsed, declared sizes checked, and the real decode_dispatch_data<Policy, Data> runs on a Data of checked "
           "iterator proxies (bounds per array, no store over an unread code) in a world whose installed tables were "
           "forgotten; calls after decode must equal calls after update; samples compiled verbatim with g++ and "
           "clang++; distinct = (registry, world) with >= 1 method",
    "C14": "2-3 policies (among checked/fast hash, map, indirect) share one table of class ids but hold different "
           "registries; random interleavings of 8-40 operations (register+update, update, unregister+update, unregister "
           "everything, change error handler, exhaust the hash search, calls with errors); after every operation on one "
           "policy the observable state digest (catalog sizes, dispatch data, hash parameters, v-table pointers, "
           "handler identities, slots, next), the complete behaviour table and calls through virtual_ptrs created "
           "earlier of every other policy must be unchanged and still equal the oracle; distinct = distinct operation logs",
    "C15": "checked policies only; each class in turn is left out of an otherwise legal registry: as listed base, "
           "method parameter, definition parameter (update must report unknown_class_error with that class's id) or, "
           "for leaves, as the dynamic class of an argument at each virtual position through every route (reference, "
           "pointer, shared_ptr, virtual_ptr from exact static type / from base reference / converted / copied / moved / "
           "final); no definition event and no null v-table pointer may precede the report; final on every other "
           "dynamic class must give method_table_error; distinct = (registry, class left out)",
    "C16": "per run: 2-3 caller policies (fast / checked hash, map, indirect, vector, throw_error, custom-map policy) "
           "updated single-threaded, sequential answers tabulated, then 4-16 threads start on a barrier and each "
           "performs thousands of calls (all routes incl. virtual_ptrs created before the threads), resolve(), "
           "virtual_ptr / virtual_shared_ptr construction, copy, move, conversion, erroring calls with a throwing "
           "handler, with yields and spins between operations, while one more thread registers, updates, calls and "
           "unregisters an unrelated policy (P_c, or P_m2 = P_m1::rebind<P_m2> while P_m1 is a caller) sharing the "
           "class ids; ThreadSanitizer reports (relaxed logical clock, so the monitor adds no happens-before edges) "
           "and every per-thread result are judged; distinct = runs in which overlapping operations were observed",
    "C18": "detail::static_list driven directly: EXHAUSTIVELY every legal sequence of push / remove / clear up to length 9 "
           "over 4 nodes (thorough: length 10 over 5 nodes), each replayed from an empty list and compared after every "
           "step with a vector model through both iterator kinds, size(), empty() and next(); random sequences up to "
           "length 200 over 12 nodes with removals biased to first / last / middle; and the policy catalogs "
           "(classes, methods, each method's definitions) through the registration operations of the front-end "
           "(class records, real method objects, definition records and what their destructors do, clear) compared "
           "with a model after every operation; distinct = distinct operation sequences",
    "C19": "even cases: sets of 1-12 qualified class names drawn from a random program structure (0-4 namespace levels, "
           "identifiers that are string prefixes of one another and that resemble std / yorel / keywords, inner "
           "identifiers starting with an underscore, duplicates); odd cases: type descriptions from a grammar (cv, "
           "pointers, references, function and pointer-to-function types, std:: / yorel:: / user templates incl. "
           "nested and non-type arguments, every fundamental type spelling, decltype(nullptr), demangled method<> "
           "names); the written text is parsed (balanced, only namespace / class lines) and the multiset of declared "
           "qualified names must equal the expected set; samples compiled with g++ and clang++; distinct = distinct "
           "inputs with >= 2 classes and a namespace",
    "C11": "generated programs (16 methods each) over parameter kind {T&, const T&, T&&, T*, shared_ptr<T>, const "
           "shared_ptr<T>&, virtual_ptr<T>, const virtual_ptr<T>&, virtual_shared_ptr<T>, const virtual_shared_ptr<T>&} x "
           "inheritance shape between method class and definition class {same, single, second base at non-zero "
           "offset, virtual base, two levels, two levels mixed; object of the definition class or of a class derived "
           "from it} x position (1-4 parameters, optionally a second virtual parameter) x non-virtual category {by "
           "value from prvalue / xvalue, lvalue ref, const ref, rvalue ref, move-only by value, int, double, string} x "
           "return {void, int, by value, reference} x API {method class, macros}; inside each definition the address "
           "seen is compared with static_cast<D*>(&object) computed by the caller, ownership with owner_before, copy / "
           "move counters, return values; all kind x shape pairs are covered in quick; distinct = distinct combinations",
    "C20": "generated programs: one method over N x M (x K) classes, definition template specialised through a "
           "generated DEFINED table (all / none / diagonal / one row missing / random / 97%), nested method alias or "
           "method as first template argument; at run time the method's catalog is enumerated and the set of "
           "registered combinations compared with the table (missing / extra / twice), every combination is "
           "dispatched, product order is static_asserted at sampled indexes; sizes on both sides of the 512 split "
           "(506, 512, 513, 529, 576, 1024, 1025, 1089 in thorough); distinct = distinct (sizes, table) programs",
    "C17": "update report flags compared with exhaustive oracle enumeration over all tuples of acceptable classes "
           "(all / concrete only), cells compared with the tables built; non-trivial = registry with >= 1 method",
}


def compile_emitted(check):
    """C12 / C13: the text the generator emitted for the first cases of every job is compiled
    verbatim (g++ and clang++, -fsyntax-only, templates instantiated)"""
    import glob, os, subprocess
    import vfbuild
    emit = os.path.join(check.outdir, "emit")
    files = sorted(glob.glob(os.path.join(emit, "*.inc")))[:(6 if check.tier == "quick" else 24)]
    jobs = []
    for f in files:
        wrapper = f[:-4] + ".cpp"
        with open(wrapper, "w") as w:
            if os.path.basename(f).startswith("fwd-"):
                w.write('#include "%s"\n' % f)
                continue
            w.write('#include "world_impl.hpp"\nusing namespace vf;\n')
            if os.path.basename(f).startswith("offsets-"):
                w.write('#include "%s"\n' % f)
            else:
                w.write('void vf_emitted() {\n#include "%s"\n}\n' % f)
        for cxx in ("g++", "clang++-14"):
            jobs.append((cxx, wrapper, f))

    def run(j):
        cxx, wrapper, f = j
        cmd = [cxx, "-std=c++17", "-fsyntax-only", "-w", "-I%s/include" % vfbuild.repo_dir(), "-I" + vfbuild.HARNESS,
               "-D" + vfbuild.GUARD, wrapper]
        p = subprocess.run(cmd, stdout=subprocess.PIPE, stderr=subprocess.STDOUT, text=True)
        return j, p.returncode, p.stdout
    from concurrent.futures import ThreadPoolExecutor
    with ThreadPoolExecutor(max_workers=12) as ex:
        for (cxx, wrapper, f), rc, out in ex.map(run, jobs):
            check.extra_evaluations += 1
            check.extra_hist["emitted-text-compiled." + cxx] = check.extra_hist.get("emitted-text-compiled." + cxx, 0) + 1
            if rc != 0:
                log = wrapper + "." + cxx + ".log"
                open(log, "w").write(out[-8000:])
                check.extra_violations.append(("%s:emitted-text-does-not-compile:%s" % (check.prop, cxx), wrapper))


def disp_post(check):
    """tier B half of a tier-A check: generated programs with real classes (single / multiple /
    virtual inheritance), std_rtti, every registration style and API (macros, add_function,
    containers with next), stock and derived policies; the programs check themselves against a
    Python port of the oracle; only failures whose key belongs to this property are reported"""
    import gen_disp
    import tierb
    from vfcheck import base_seed
    seed = base_seed() % 100000 + sum(map(ord, check.prop))
    progs = gen_disp.programs(check.tier, seed, focus=check.prop)
    tierb.run_programs(check, progs, max_parallel=12, only_prefix=check.prop)
    check.extra_evidence["tier_b_programs"] = len(progs)
    check.rule += ("; plus tier B: %d generated programs with real class hierarchies (virtual inheritance where a base is "
                   "reachable by two paths), std_rtti, registration styles one / split / direct / mixed, macro / "
                   "add_function / container APIs, default / map / indirect / throw / debug policies, self-checked "
                   "against a Python port of the oracle" % len(progs))


def dl_post(check):
    """C07 tier B: main program + two real shared libraries, dlopen / dlclose histories"""
    import gen_dl
    import tierb
    from vfcheck import base_seed
    progs = gen_dl.programs(check.tier, base_seed() % 1000)
    tierb.run_programs(check, progs, max_parallel=8, only_prefix=check.prop)
    check.extra_evidence["tier_b_dlopen_programs"] = len(progs)
    check.rule += ("; plus tier B: %d generated programs made of a main executable and two real shared libraries "
                   "(classes, definitions and a method of their own) driven through dlopen / update / calls / dlclose / "
                   "update histories and compared with the table of the libraries loaded at each point" % len(progs))


def rtti_post(check):
    """C10 tier B: the same kind of generated programs under a user-supplied RTTI facet (integer ids
    returned by a virtual function) and under deferred_static_rtti (ids assigned after the
    registration objects were constructed); every failure counts for C10"""
    import gen_disp
    import tierb
    from vfcheck import base_seed
    progs = gen_disp.programs(check.tier, base_seed() % 100000 + 1010, focus="C10")
    tierb.run_programs(check, progs, max_parallel=12, remap_prefix="C10:custom-rtti-program:")
    check.extra_evidence["tier_b_programs"] = len(progs)
    check.rule += ("; plus tier B: %d generated programs (real classes, all registration styles and APIs) under a custom "
                   "rtti facet and under deferred_static_rtti, self-checked against the Python oracle" % len(progs))


def wide_post(check):
    """C12 tier B: a 4-method with 40+ groups per dimension - strides above 65535, a dispatch table of
    tens of thousands of cells (the tier-A harness cannot reach that with its 96 classes)"""
    import gen_c12
    import tierb
    from vfcheck import base_seed
    progs = gen_c12.programs(check.tier, base_seed() % 1000)
    tierb.run_programs(check, progs, max_parallel=4, only_prefix=check.prop)
    check.extra_evidence["tier_b_wide_stride_programs"] = len(progs)
    check.rule += ("; plus tier B: %d generated program(s) whose 4-method has 42-45 groups in each of its first three "
                   "dimensions (stride of the last parameter > 65535): numbers read back from the generated text = "
                   "method::slots_strides, 3000 calls through the wide table" % len(progs))


def frontend_policies_post(check):
    """C14 tier B: two to four policies in one program through the public front-end - methods with the
    same key and signature, the same functions added as definitions in several policies, the same
    classes registered everywhere, interleaved updates and handler changes"""
    import gen_c14
    import tierb
    from vfcheck import base_seed
    progs = gen_c14.programs(check.tier, base_seed() % 1000)
    tierb.run_programs(check, progs, max_parallel=8, only_prefix=check.prop)
    check.extra_evidence["tier_b_multi_policy_programs"] = len(progs)
    check.rule += ("; plus tier B: %d generated programs with 2-4 policies (default, rebind-first, replace-first/rebind-last "
                   "with vptr_map, throw_error, indirect) whose methods share key, signature and definition functions; "
                   "every policy is compared with the generator's table after each update / handler change" % len(progs))


def frontend_threads_post(check):
    """C16 tier B: threads calling methods of the default policy through the public front-end while one
    more thread keeps updating another policy (stock shared flavour, the other static stock policy,
    rebind / replace-derived ones); ThreadSanitizer builds, reports fatal"""
    import gen_c16
    import tierb
    from vfcheck import base_seed
    progs = gen_c16.programs(check.tier, base_seed() % 1000)
    tierb.run_programs(check, progs, max_parallel=5, only_prefix=check.prop)
    check.extra_evidence["tier_b_threaded_programs"] = len(progs)
    check.rule += ("; plus tier B: %d generated multi-threaded programs on the stock policies (callers on default_policy, "
                   "an updater on debug_shared / the other static stock policy / rebind- and replace-derived policies), "
                   "g++ -fsanitize=thread with fatal reports, every call compared with the single-threaded answer" % len(progs))


def clean_emit(check):
    import os, shutil
    emit = os.path.join(check.outdir, "emit")
    shutil.rmtree(emit, ignore_errors=True)
    os.makedirs(emit, exist_ok=True)


def tierb_plan(prop, tier, gen, min_eval=20, max_parallel=12, assumptions=None):
    import tierb
    from vfcheck import base_seed
    c = Check(prop, tier, RULES[prop], assumptions=(assumptions or []) + [
        "tier B: programs generated by lib/%s.py use only the public API and check themselves while running "
        "(clang++-14 -O0 ASan+UBSan; thorough adds g++ -O2 -DNDEBUG and debug-policy builds)" % gen.__name__,
        "expectations inside the programs are computed by the C++ compiler itself (static_cast / addresses taken by "
        "the caller) or by the generator's table"], min_evaluations=min_eval)

    def run():
        progs = gen.programs(tier, base_seed() % 100000)
        tierb.run_programs(c, progs, max_parallel=max_parallel)
        c.extra_evidence["programs"] = len(progs)
        return c.finish()
    c.run = run
    return c


def harness_plan(prop, tier, quick, thorough, min_eval=1000, policy=None, extra=None, salt=0, level="exploration",
                 assumptions=None):
    """quick / thorough: list of (flavour, processes, cases per process)"""
    c = Check(prop, tier, RULES[prop], level=level, assumptions=COMMON_ASSUMPTIONS + (assumptions or []),
              min_evaluations=min_eval)
    traced = {"C01": 60, "C02": 60, "C03": 60, "C04": 60, "C05": 60, "C06": 40, "C07": 60, "C08": 40, "C09": 60, "C10": 20,
              "C12": 60, "C13": 60, "C14": 40, "C15": 60, "C17": 60}
    if prop in traced:
        # the same workload with the documented run-time trace switched on (YOMM2_TRACE=1), on the
        # policies that have the trace facet: code under 'if (trace_enabled)' runs too
        from vfcheck import Job as _Job
        for i, s in enumerate(seeds(2 if tier == "quick" else 6, 4242 + sum(map(ord, prop)))):
            c.add(_Job("rel" if i % 2 == 0 else "asan", prop, s, traced[prop] if tier == "quick" else traced[prop] * 25,
                       policy="P_dbg,P_thr,P_indc,P_proj,P_def,P_b,P_c", trace=True, timeout=3600 if tier == "quick" else 6 * 3600))
    if prop in ("C01", "C02", "C03", "C08", "C09", "C15", "C17"):
        c.post = disp_post
    if prop == "C07":
        c.post = dl_post
    if prop == "C10":
        c.post = rtti_post
    spec = quick if tier == "quick" else thorough
    k = 0
    for flavour, procs, cases in spec:
        for s in seeds(procs, salt + k * 131 + sum(map(ord, prop))):
            c.add(Job(flavour, prop, s, cases, extra=extra, policy=policy, timeout=3600 if tier == "quick" else 6 * 3600))
        k += 1
    return c


def plan(prop, tier):
    if prop == "C01":
        return harness_plan(prop, tier, [("rel", 10, 1500), ("asan", 6, 300)], [("rel", 14, 50000), ("asan", 14, 9000), ("clang-asan", 4, 3000)])
    if prop == "C02":
        return harness_plan(prop, tier, [("rel", 10, 1500), ("asan", 6, 300)], [("rel", 14, 50000), ("asan", 14, 10000)])
    if prop == "C03":
        return harness_plan(prop, tier, [("rel", 10, 4000), ("asan", 6, 1000)], [("rel", 14, 150000), ("asan", 14, 30000)])
    if prop == "C04":
        return harness_plan(prop, tier, [("rel", 8, 2500), ("asan", 8, 500)], [("rel", 12, 100000), ("asan", 16, 20000), ("clang-asan", 4, 5000)])
    if prop == "C05":
        return harness_plan(prop, tier, [("rel", 10, 600), ("asan", 6, 150)], [("rel", 14, 1500), ("asan", 14, 300)])
    if prop == "C06":
        return harness_plan(prop, tier, [("rel", 10, 300), ("asan", 6, 60)], [("rel", 14, 15000), ("asan", 14, 3000)])
    if prop == "C07":
        return harness_plan(prop, tier, [("rel", 10, 3000), ("asan", 6, 600)], [("rel", 14, 200000), ("asan", 14, 30000)])
    if prop == "C08":
        return harness_plan(prop, tier, [("rel", 10, 400), ("asan", 6, 80)], [("rel", 14, 12000), ("asan", 14, 2400)])
    if prop == "C09":
        return harness_plan(prop, tier, [("rel", 10, 1200), ("asan", 6, 250)], [("rel", 14, 60000), ("asan", 14, 12000)])
    if prop == "C10":
        return harness_plan(prop, tier, [("rel", 10, 200), ("asan", 6, 40)], [("rel", 14, 8000), ("asan", 14, 1600)])
    if prop == "C12":
        c = harness_plan(prop, tier, [("rel", 10, 1000), ("asan", 6, 200)], [("rel", 14, 60000), ("asan", 14, 12000)])
        clean_emit(c)

        def post(check):
            compile_emitted(check)
            wide_post(check)
        c.post = post
        return c
    if prop == "C13":
        c = harness_plan(prop, tier, [("rel", 10, 800), ("asan", 6, 150)], [("rel", 14, 50000), ("asan", 14, 10000)])
        clean_emit(c)
        c.post = compile_emitted
        return c
    if prop == "C14":
        c = harness_plan(prop, tier, [("rel", 10, 400), ("asan", 6, 80)], [("rel", 14, 10000), ("asan", 14, 1500)])
        c.post = frontend_policies_post
        return c
    if prop == "C15":
        return harness_plan(prop, tier, [("rel", 10, 1500), ("asan", 6, 300)], [("rel", 14, 60000), ("asan", 14, 12000)], level="fault_enumeration")
    if prop == "C16":
        c = harness_plan(prop, tier, [("tsan", 8, 8), ("rel", 6, 15), ("asan", 2, 4)], [("tsan", 12, 100), ("rel", 8, 150), ("asan", 6, 25)], min_eval=1000)
        c.post = frontend_threads_post
        return c
    if prop == "C18":
        c = harness_plan(prop, tier, [("rel", 6, 3000), ("asan", 4, 800)], [("rel", 12, 300000), ("asan", 8, 40000)], min_eval=1000)
        # the exhaustive enumeration runs once per flavour
        done = set()
        for j in c.jobs:
            if j.flavour not in done:
                # (under ASan the deepest level of the thorough enumeration alone takes 40 minutes:
                # one level less there; the rel flavour goes to the full depth)
                j.extra = list(j.extra) + ["exhaustive"] + (["maxlen=9"] if tier != "quick" and j.flavour == "asan" else [])
                done.add(j.flavour)
        return c
    if prop == "C19":
        c = harness_plan(prop, tier, [("rel", 8, 30000), ("asan", 4, 5000)], [("rel", 14, 1500000), ("asan", 10, 200000)])
        clean_emit(c)
        c.post = compile_emitted
        return c
    if prop == "C11":
        import gen_c11
        c = tierb_plan(prop, tier, gen_c11, min_eval=200)
        inner = c.run

        def run():
            disp_post(c)
            return inner()
        c.run = run
        return c
    if prop == "C20":
        import gen_c20
        return tierb_plan(prop, tier, gen_c20, min_eval=50, max_parallel=8)
    if prop == "C17":
        return harness_plan(prop, tier, [("rel", 10, 4000), ("asan", 4, 800)], [("rel", 14, 150000), ("asan", 10, 25000)])
    return None

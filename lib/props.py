"""Per-property plans: which harness jobs (flavour, cases, seeds) make up the
quick and the thorough check, the rule used to count non-trivial cases, and the
assumptions.  Case counts bound every run (never wall-clock)."""
from vfcheck import Check, Job, seeds

COMMON_ASSUMPTIONS = [
    "oracle.hpp-equivalent reference model in harness/common.hpp (Oracle) is the trusted base: it is written from the "
    "documentation and the property statements and shares no code with compiler.hpp",
    "tier A bypasses the template front-end: class_info / definition_info records are populated by the harness exactly "
    "as class_declaration / add_function would, real method<> objects, real update<Policy>() and real call path",
    "g++ 12 / clang 14, x86-64 Linux only; graphs <= 48 classes, arity <= 4",
]

RULES = {
    "C01": "random registries (12 graph generators x 6 presentations x 6 id flavours x 11 policy worlds); every legal "
           "tuple (<= cap) called through operator() and resolve(); a case is non-trivial when the graph has multiple "
           "inheritance or the definitions contain an incomparable pair; distinct = distinct (registry hash, world)",
    "C02": "as C01 but only unresolvable tuples are judged: status/arity/type ids of the resolution_error compared with "
           "the oracle and the dynamic ids of exactly the virtual arguments, through the vectored handler, the "
           "deprecated call_error hook, the throw_error facet and (forked) handlers that return; non-trivial = registry "
           "with at least one erroring call; distinct = (registry hash, world)",
    "C03": "after each update the harness-owned next slot of every definition (poisoned beforehand) is compared with "
           "the oracle's next; non-trivial = MI graph or incomparable definitions",
    "C04": "shadow walk over installed state: per class slot uniqueness over all applicable (method, parameter) pairs, "
           "slot inside the class's own v-table extent, cell owned by that pair, addresses inside dispatch_data, "
           "multi-method address arithmetic inside the method's table; non-trivial = MI graph with >= 2 methods",
    "C17": "update report flags compared with exhaustive oracle enumeration over all tuples of acceptable classes "
           "(all / concrete only), cells compared with the tables built; non-trivial = registry with >= 1 method",
}


def harness_plan(prop, tier, quick, thorough, min_eval=1000, policy=None, extra=None, salt=0, level="exploration",
                 assumptions=None):
    """quick / thorough: list of (flavour, processes, cases per process)"""
    c = Check(prop, tier, RULES[prop], level=level, assumptions=COMMON_ASSUMPTIONS + (assumptions or []),
              min_evaluations=min_eval)
    spec = quick if tier == "quick" else thorough
    k = 0
    for flavour, procs, cases in spec:
        for s in seeds(procs, salt + k * 131 + sum(map(ord, prop))):
            c.add(Job(flavour, prop, s, cases, extra=extra, policy=policy, timeout=3600 if tier == "quick" else 6 * 3600))
        k += 1
    return c


def plan(prop, tier):
    if prop == "C01":
        return harness_plan(prop, tier, [("rel", 10, 400), ("asan", 6, 120)], [("rel", 14, 9000), ("asan", 14, 2500), ("clang-asan", 4, 800)])
    if prop == "C02":
        return harness_plan(prop, tier, [("rel", 8, 300), ("asan", 6, 100)], [("rel", 14, 6000), ("asan", 14, 1500)])
    if prop == "C03":
        return harness_plan(prop, tier, [("rel", 8, 600), ("asan", 6, 200)], [("rel", 14, 12000), ("asan", 14, 3000)])
    if prop == "C04":
        return harness_plan(prop, tier, [("rel", 8, 500), ("asan", 8, 150)], [("rel", 12, 12000), ("asan", 16, 3000), ("clang-asan", 4, 800)])
    if prop == "C17":
        return harness_plan(prop, tier, [("rel", 10, 500), ("asan", 4, 150)], [("rel", 14, 15000), ("asan", 10, 3000)])
    return None

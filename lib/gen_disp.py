"""Tier B "dispatch programs": a random registry becomes a real program that uses
only the public API - real classes with single / multiple / virtual inheritance,
std_rtti, class registration in several styles, declare_method / define_method /
method::add_function / next, virtual_ptr routes - and checks itself against
expectations computed here by an independent Python port of the oracle.

The same generator serves several properties; every failure key starts with the
id of the property whose statement it contradicts (C01, C02, C03, C08, C09, C15,
C17), and a check only reports the keys of its own property (plus crashes).
"""
import itertools
import random

from tierb import PRELUDE, EPILOGUE, Program

# ---------------------------------------------------------------------------------------------
# registry + oracle (Python port, written from the property statements)


class Reg:
    def __init__(self):
        self.n = 0
        self.bases = []      # direct bases per class
        self.abstract = []
        self.methods = []    # dict(kinds=[...], vp=[cls...], nv=[...], defs=[[cls...]], api=..)

    def closure(self):
        n = self.n
        der = [[False] * n for _ in range(n)]
        for c in range(n):
            der[c][c] = True
            for b in self.bases[c]:
                der[c][b] = True
        for k in range(n):
            for i in range(n):
                if der[i][k]:
                    for j in range(n):
                        if der[k][j]:
                            der[i][j] = True
        return der


def more_specific(der, a, b):
    some = False
    for x, y in zip(a, b):
        if x != y and der[y][x]:
            return False
        if x != y and der[x][y]:
            some = True
    return some


def select_among(der, defs, cand):
    if not cand:
        return ("NODEF", -1)
    for d in cand:
        if all(e == d or more_specific(der, defs[d], defs[e]) for e in cand):
            return ("DEF", d)
    return ("AMBIG", -1)


def select(der, m, tup):
    cand = [d for d, df in enumerate(m["defs"]) if all(der[t][c] for t, c in zip(tup, df))]
    return select_among(der, m["defs"], cand)


def next_of(der, m, d):
    dd = m["defs"][d]
    cand = []
    for e, de in enumerate(m["defs"]):
        if e == d:
            continue
        if all(der[x][y] for x, y in zip(dd, de)) and any(x != y for x, y in zip(dd, de)):
            cand.append(e)
    return select_among(der, m["defs"], cand)


# ---------------------------------------------------------------------------------------------
# generation

VK = ["ref", "cref", "ptr", "sp", "csp", "vp", "cvp", "vsp", "cvsp", "vpc", "vspc"]  # ..c: pointers to const


def gen_graph(rng, n):
    r = Reg()
    r.n = n
    kind = rng.choice(["tree", "diamond", "dag", "tworoots", "chain"])
    r.bases = [[] for _ in range(n)]
    for c in range(1, n):
        if kind == "chain":
            r.bases[c] = [c - 1]
        elif kind == "tree":
            r.bases[c] = [rng.randrange(c)]
        elif kind == "tworoots":
            if c == 1:
                r.bases[c] = []
            else:
                k = rng.choice([1, 1, 2])
                r.bases[c] = sorted(rng.sample(range(c), min(k, c)))
        else:
            k = rng.choice([1, 1, 2, 2, 3]) if kind == "dag" else (2 if c >= 3 and rng.random() < 0.5 else 1)
            r.bases[c] = sorted(rng.sample(range(c), min(k, c)))
    # transitive reduction: keep direct bases only
    der = r.closure()
    for c in range(n):
        r.bases[c] = [b for b in r.bases[c] if not any(b2 != b and der[b2][b] for b2 in r.bases[c])]
    r.abstract = [False] * n
    r.kind = kind
    return r


def virtual_bases(r):
    """B is inherited virtually (by every class that lists it) iff some class reaches B by >= 2 paths"""
    n = r.n
    paths = [[0] * n for _ in range(n)]
    for c in range(n):
        paths[c][c] = 1
    order = list(range(n))  # bases have smaller indexes
    for c in order:
        for b in r.bases[c]:
            for k in range(n):
                paths[c][k] += paths[b][k]
    return [any(paths[c][b] >= 2 for c in range(n)) for b in range(n)]


def gen_registry(rng, max_classes=8, focus=None, salt=0):
    n = rng.randint(2, max_classes)
    r = gen_graph(rng, n)
    der = r.closure()
    # abstract flags: a class may be abstract only if it has a derived class
    for c in range(n):
        if rng.random() < 0.3 and not r.bases[c] and any(der[d][c] and d != c for d in range(n)):
            r.abstract[c] = True  # (roots only: no ambiguous final overriders under multiple inheritance)
    nm = rng.randint(2, 3) if focus == "C01" else rng.randint(1, 3)
    for _ in range(nm):
        ar = rng.choice([1, 1, 2, 2, 3])
        nparams = ar + rng.choice([0, 0, 1, 2])
        positions = sorted(rng.sample(range(nparams), ar))
        kinds = [rng.choice(VK + (["vp", "cvp", "vpc", "vp", "cvp"] if focus == "C09" else [])) for _ in range(ar)]
        vp = [rng.randrange(n) if rng.random() < 0.5 else 0 for _ in range(ar)]
        # roots more often
        for i in range(ar):
            while r.bases[vp[i]] and rng.random() < 0.6:
                vp[i] = rng.choice(r.bases[vp[i]])
        m = dict(arity=ar, nparams=nparams, positions=positions, kinds=kinds, vp=vp, defs=[],
                 api=rng.choice(["container", "container", "class", "class", "macro"] if focus == "C03" else ["macro", "macro", "class", "container"]))
        nd = rng.randint(0, 5)
        for _ in range(nd):
            d = []
            for i in range(ar):
                acc = [c for c in range(n) if der[c][vp[i]]]
                d.append(rng.choice(acc) if rng.random() < 0.7 else vp[i])
            if d not in m["defs"]:
                m["defs"].append(d)
        r.methods.append(m)
    r.salt = salt
    r.focus = focus
    if len(r.methods) >= 2 and rng.random() < (0.6 if focus == "C01" else 0.3):
        # two methods with the same name, signature and policy, declared with the macros in nested
        # scopes (the emitter gives them the same name): each must keep its own definitions
        a, b = r.methods[0], r.methods[1]
        for k in ("arity", "nparams", "positions", "kinds", "vp"):
            b[k] = list(a[k]) if isinstance(a[k], list) else a[k]
        a["api"] = b["api"] = "macro"
        b["defs"] = []
        for _ in range(rng.randint(0, 5)):
            d = []
            for i in range(b["arity"]):
                acc = [c for c in range(n) if der[c][b["vp"][i]]]
                d.append(rng.choice(acc) if rng.random() < 0.7 else b["vp"][i])
            if d not in b["defs"]:
                b["defs"].append(d)
        b["twin_of"] = 0
    return r


# ---------------------------------------------------------------------------------------------
# C++ emission

def cname(c):
    return "C%d" % c


def method_ptype(kind, cls, policy_arg):
    C = cname(cls)
    pa = (", " + policy_arg) if policy_arg else ""
    return {
        "ref": "virtual_<%s&>" % C, "cref": "virtual_<const %s&>" % C, "ptr": "virtual_<%s*>" % C,
        "sp": "virtual_<std::shared_ptr<%s>>" % C, "csp": "virtual_<const std::shared_ptr<%s>&>" % C,
        "vp": "virtual_ptr<%s%s>" % (C, pa), "cvp": "const virtual_ptr<%s%s>&" % (C, pa),
        "vsp": "virtual_shared_ptr<%s%s>" % (C, pa), "cvsp": "const virtual_shared_ptr<%s%s>&" % (C, pa),
        "vpc": "virtual_ptr<const %s%s>" % (C, pa), "vspc": "virtual_shared_ptr<const %s%s>" % (C, pa),
    }[kind]


def def_ptype(kind, cls, policy_arg):
    C = cname(cls)
    pa = (", " + policy_arg) if policy_arg else ""
    return {
        "ref": "%s&" % C, "cref": "const %s&" % C, "ptr": "%s*" % C,
        "sp": "std::shared_ptr<%s>" % C, "csp": "const std::shared_ptr<%s>&" % C,
        "vp": "virtual_ptr<%s%s>" % (C, pa), "cvp": "const virtual_ptr<%s%s>&" % (C, pa),
        "vsp": "virtual_shared_ptr<%s%s>" % (C, pa), "cvsp": "const virtual_shared_ptr<%s%s>&" % (C, pa),
        "vpc": "virtual_ptr<const %s%s>" % (C, pa), "vspc": "virtual_shared_ptr<const %s%s>" % (C, pa),
    }[kind]


CUSTOM_RTTI = r"""
template<class T, class = void> struct has_vf_id : std::false_type {};
template<class T> struct has_vf_id<T, std::void_t<decltype(T::vf_static_id)>> : std::true_type {};
struct custom_rtti : RTTI_BASE {
    template<class T> static type_id static_type() {
        if constexpr (has_vf_id<T>::value) return T::vf_static_id; else return 1;
    }
    template<class T> static type_id dynamic_type(const T& obj) {
        if constexpr (has_vf_id<T>::value) return obj.vf_type(); else return 1;
    }
    template<class Stream> static void type_name(type_id t, Stream& s) { s << "type#" << t; }
    static type_id type_index(type_id t) { return t; }
    template<typename D, typename B> static D dynamic_cast_ref(B&& obj) { return dynamic_cast<D>(obj); }
};
struct pol : default_policy::rebind<pol>::replace<policy::rtti, custom_rtti> {};
"""

POLICIES = {
    # name -> (definition, uses std handler API?)
    "default": None,
    "map": "struct pol : policy::release::rebind<pol>::remove<policy::type_hash>::replace<policy::external_vptr, policy::vptr_map<pol>> {};",
    "indirect": "struct pol : default_policy::rebind<pol>, policy::basic_indirect_vptr<pol> {};",
    "throw": "struct pol : default_policy::rebind<pol>::replace<policy::error_handler, policy::throw_error> {};",
    "debug": "struct pol : policy::debug::rebind<pol> {};",
    # user-supplied RTTI (the custom RTTI tutorial's pattern): integer ids carried by a virtual function
    "custom": CUSTOM_RTTI.replace("RTTI_BASE", "policy::rtti"),
    # the same with ids that are only known when update runs
    "deferred": CUSTOM_RTTI.replace("RTTI_BASE", "policy::deferred_static_rtti"),
}


def emit(r, rng, name, policy, reg_style, flavours, leave_out=None):
    """leave_out: class index that is NOT registered (C15; only with a checked policy)"""
    der = r.closure()
    vb = virtual_bases(r)
    pol = "" if policy == "default" else "pol"
    polarg = pol
    L = []
    if POLICIES[policy]:
        L.append(POLICIES[policy])
    P = "pol" if pol else "default_policy"
    deferred_defs = ["static std::size_t g_id_counter = 0;"]
    # classes
    for c in range(r.n):
        bases = ", ".join(("virtual " if vb[b] else "") + cname(b) for b in r.bases[c])
        is_leaf = not any(der[d][c] and d != c for d in range(r.n))
        final_kw = " final" if is_leaf and rng.random() < (0.7 if c == leave_out else 0.4) else ""
        L.append("struct %s%s%s {" % (cname(c), final_kw, (" : " + bases) if bases else ""))
        L.append("    int tag%d = %d;" % (c, 1000 + c))
        if policy == "custom":
            L.append("    static inline std::size_t vf_static_id = %d;" % (10 + 3 * c))
        elif policy == "deferred":
            L.append("    static std::size_t vf_static_id;")
            deferred_defs.append("std::size_t %s::vf_static_id = ++g_id_counter * 5;" % cname(c))
        if policy in ("custom", "deferred"):
            L.append("    %sstd::size_t vf_type() const %s{ return vf_static_id; }" % ("virtual " if not r.bases[c] else "", "" if not r.bases[c] else "override "))
        if not r.bases[c]:
            L.append("    virtual ~%s() {}" % cname(c))
        if r.abstract[c]:
            L.append("    virtual void pv%d() = 0;" % c)
        for b in range(r.n):
            if b != c and der[c][b] and r.abstract[b] and not r.abstract[c]:
                L.append("    void pv%d() override {}" % b)
        L.append("};")
    # registration
    regd = [c for c in range(r.n) if c != leave_out]
    polsuffix = (", " + pol) if pol else ""
    if reg_style == "macros":
        # register_classes (all bases derived by the library) for some, register_class (bases listed) for others
        chunk = [c for c in regd if rng.random() < 0.6]
        closed = sorted(set(chunk) | {b for c in chunk for b in regd if der[c][b]})
        if closed:
            L.append("register_classes(%s%s);" % (", ".join(cname(c) for c in closed), polsuffix))
        for c in regd:
            if c not in closed or rng.random() < 0.3:
                bs = [b for b in r.bases[c] if b != leave_out]
                L.append("register_class(%s%s);" % (", ".join([cname(c)] + [cname(b) for b in bs]), polsuffix))
    elif reg_style == "one":
        order = regd[:]
        rng.shuffle(order)
        L.append("static use_classes<%s%s> YOMM2_GENSYM;" % (", ".join(cname(c) for c in order), polsuffix))
    elif reg_style == "split":
        # several statements, each a chain-closed subset; every direct edge appears in one of them
        stmts = []
        for c in regd:
            for b in r.bases[c]:
                if b != leave_out:
                    stmts.append([c, b])
        for c in regd:
            if rng.random() < 0.5 or not any(c in s2 for s2 in stmts):
                stmts.append([c] + [b for b in regd if b != c and der[c][b] and rng.random() < 0.5])
        rng.shuffle(stmts)
        for s2 in stmts:
            rng.shuffle(s2)
            L.append("static use_classes<%s%s> YOMM2_GENSYM;" % (", ".join(cname(c) for c in s2), polsuffix))
    elif reg_style == "direct":
        order = regd[:]
        rng.shuffle(order)
        for c in order:
            bs = [b for b in r.bases[c] if b != leave_out]
            L.append("static class_declaration<%s%s> YOMM2_GENSYM;" % (", ".join([cname(c)] + [cname(b) for b in bs]), polsuffix))
    else:  # mixed: some classes declared directly, the rest in one use_classes, some twice
        direct = [c for c in regd if rng.random() < 0.5]
        for c in direct:
            bs = [b for b in r.bases[c] if b != leave_out]
            L.append("static class_declaration<%s%s> YOMM2_GENSYM;" % (", ".join([cname(c)] + [cname(b) for b in bs]), polsuffix))
        rest = [c for c in regd if c not in direct or rng.random() < 0.3]
        closed = sorted(set(rest) | {b for c in rest for b in regd if der[c][b]})
        if closed:
            L.append("static use_classes<%s%s> YOMM2_GENSYM;" % (", ".join(cname(c) for c in closed), polsuffix))
    # methods
    L.append("static int g_next_result = 0;")
    NV = ["int", "double", "const std::string&"]
    exp_tables = []
    # macro methods either get distinct names at global scope, or all the same name in successively
    # nested namespaces (outermost first); a method with another number of parameters may also
    # share the scope of the previous one (an overload)
    nested = any("twin_of" in m for m in r.methods) or rng.random() < 0.3
    ns_path, scope_nparams = [], set()
    for mi, m in enumerate(r.methods):
        ptypes, nvt = [], []
        vi = 0
        for p in range(m["nparams"]):
            if p in m["positions"]:
                ptypes.append(method_ptype(m["kinds"][vi], m["vp"][vi], polarg))
                vi += 1
            else:
                t = NV[(mi + p) % 3]
                ptypes.append(t)
        m["ptypes"] = ptypes
        key = "K%d" % mi
        if pol and m["api"] == "macro" and any(k in ("vp", "cvp", "vsp", "cvsp", "vpc", "vspc") for k in m["kinds"]):
            m["api"] = "class"  # a type with a comma cannot be passed to the macros
        m["mname"] = m["qual"] = "meth%d" % mi
        in_ns = False
        if m["api"] == "macro":
            if nested:
                if not ns_path or m["nparams"] in scope_nparams or rng.random() < 0.6:
                    ns_path.append("ns%d" % (len(ns_path) + 1))
                    scope_nparams = set()
                scope_nparams.add(m["nparams"])
                in_ns = True
                m["mname"] = "meth"
                m["qual"] = "::".join(ns_path) + "::meth"
                L.append(" ".join("namespace %s {" % x for x in ns_path))
            L.append("declare_method(int, %s, (%s)%s);" % (m["mname"], ", ".join(ptypes), polsuffix))
            M = "method_class(int, %s, (%s)%s)" % (m["mname"], ", ".join(ptypes), polsuffix)
        else:
            L.append("struct %s;" % key)
            M = "method<%s, int(%s)%s>" % (key, ", ".join(ptypes), polsuffix)
        L.append("using M%d = %s;" % (mi, M))
        # (a method that has no definition and is never called would not be instantiated at all, hence
        # not registered: name its method object once)
        L.append("static auto& method_object_%d = M%d::fn;" % (mi, mi))
        m["M"] = "M%d" % mi
        cont_flavour = ["next<>", "own-next-member", "use_next<>", "own-next-member", "no-next"][(getattr(r, "salt", 0) + mi) % 5]
        m["no_next"] = m["api"] == "container" and cont_flavour == "no-next"
        for di, d in enumerate(m["defs"]):
            dtypes = []
            vi = 0
            names = []
            for p in range(m["nparams"]):
                if p in m["positions"]:
                    dtypes.append(def_ptype(m["kinds"][vi], d[vi], polarg))
                    vi += 1
                else:
                    dtypes.append(ptypes[p])
                names.append("a%d" % p)
            plist = ", ".join("%s a%d" % (t, p) for p, t in enumerate(dtypes))
            # forwarding expression for next(...)
            fwd = []
            vi = 0
            for p in range(m["nparams"]):
                if p in m["positions"]:
                    k = m["kinds"][vi]
                    vi += 1
                    fwd.append("a%d" % p)
                else:
                    fwd.append("a%d" % p)
            # the body records which definition ran and what next refers to
            probe = ["    g_ran_method = %d; g_ran_def = %d;" % (mi, di)]
            vi = 0
            for p in range(m["nparams"]):
                if p in m["positions"]:
                    k = m["kinds"][vi]
                    acc = {"ref": "&a%d", "cref": "&a%d", "ptr": "a%d", "sp": "a%d.get()", "csp": "a%d.get()", "vp": "&*a%d", "cvp": "&*a%d",
                           "vsp": "a%d.get().get()", "cvsp": "a%d.get().get()", "vpc": "&*a%d", "vspc": "a%d.get().get()"}[k] % p
                    probe.append("    g_seen[%d] = (const void*)%s;" % (vi, acc))
                    if k in ("vp", "cvp", "vpc"):
                        # the pointer handed to the definition must carry the v-table of the pointee's
                        # dynamic class (what a pointer built from a plain reference carries)
                        probe.append("    g_vptr_ok[%d] = a%d._vptr() == virtual_ptr<%s%s%s>(*a%d)._vptr();" % (vi, p, "const " if k == "vpc" else "", cname(d[vi]), (", " + pol) if pol else "", p))
                    elif k in ("vsp", "cvsp", "vspc"):
                        probe.append("    g_vptr_ok[%d] = a%d._vptr() == virtual_ptr<%s%s%s>(*a%d.get())._vptr();" % (vi, p, "const " if k == "vspc" else "", cname(d[vi]), (", " + pol) if pol else "", p))
                    else:
                        probe.append("    g_vptr_ok[%d] = true;" % vi)
                    vi += 1
            if m["api"] == "macro":
                nx = "next"
                body = probe + ["    g_next_ptr = (void*)%s;" % nx, "    return %d;" % (100 * mi + di)]
                L.append("define_method(int, %s, (%s)) {\n%s\n}" % (m["mname"], plist, "\n".join(body)))
            elif m["api"] == "class":
                L.append("static M%d::next_type next_%d_%d;" % (mi, mi, di))
                body = probe + ["    g_next_ptr = (void*)next_%d_%d;" % (mi, di), "    return %d;" % (100 * mi + di)]
                L.append("static int def_%d_%d(%s) {\n%s\n}" % (mi, di, plist, "\n".join(body)))
                L.append("static M%d::add_function<def_%d_%d> reg_%d_%d(&next_%d_%d);" % (mi, mi, di, mi, di, mi, di))
                if rng.random() < (0.6 if getattr(r, "focus", None) == "C03" else 0.15):
                    # a second registration object for the same definition (e.g. the same header in two
                    # translation units): the definition is registered once
                    if rng.random() < 0.5:
                        L.append("static M%d::add_function<def_%d_%d> reg_again_%d_%d(&next_%d_%d);" % (mi, mi, di, mi, di, mi, di))
                    else:  # ...this time without saying where next goes: the first registration stands
                        L.append("static M%d::add_function<def_%d_%d> reg_again_%d_%d;" % (mi, mi, di, mi, di))
            else:  # definition container: next from next<> / use_next<>, a next member of its own, or none
                if cont_flavour in ("next<>", "use_next<>"):
                    L.append("struct cont_%d_%d : M%d::%s<cont_%d_%d> {" % (mi, di, mi, cont_flavour[:-2], mi, di))
                else:
                    L.append("struct cont_%d_%d {" % (mi, di))
                if cont_flavour == "own-next-member":
                    L.append("    static M%d::next_type next;" % mi)
                body = probe + ["        g_next_ptr = (void*)next;" if cont_flavour != "no-next" else "        g_next_ptr = nullptr;",
                                "        return %d;" % (100 * mi + di)]
                L.append("    static int fn(%s) {\n%s\n    }\n};" % (plist, "\n".join(body)))
                if cont_flavour == "own-next-member":
                    L.append("M%d::next_type cont_%d_%d::next;" % (mi, mi, di))
                L.append("static M%d::add_definition<cont_%d_%d> reg_%d_%d;" % (mi, mi, di, mi, di))
        if in_ns:
            L.append("}" * len(ns_path) + " // namespace " + "::".join(ns_path))
            L.append("using %s::M%d;" % ("::".join(ns_path), mi))
    if policy == "deferred":
        L += deferred_defs  # defined after every registration object: unknown until update runs
    # ---- main
    main = ["int main() {"]
    handler_api = rng.choice(["member", "set_error_handler", "set_method_call_error_handler"]) if policy == "default" else "member"
    if leave_out is not None and handler_api == "set_method_call_error_handler":
        handler_api = "set_error_handler"
    if handler_api == "set_method_call_error_handler":
        # the deprecated hook: (code, method name), arity, type ids - converted back into a resolution_error
        main.append("    set_method_call_error_handler([](const method_call_error& err, std::size_t arity, type_id* types) {")
        main.append("        resolution_error r; r.status = err.code; r.arity = arity; r.method_name = err.method_name;")
        main.append("        for (std::size_t i = 0; i < resolution_error::max_types; ++i) r.types[i] = i < arity ? types[i] : 0;")
        main.append("        throw r;")
        main.append("    });")
    elif handler_api == "set_error_handler":
        main.append("    set_error_handler([](const error_type& e) {")
        main.append("        if (auto r = std::get_if<resolution_error>(&e)) throw *r;")
        main.append("        if (auto r = std::get_if<unknown_class_error>(&e)) throw *r;")
        main.append("        if (auto r = std::get_if<method_table_error>(&e)) throw *r;")
        main.append("        if (auto r = std::get_if<hash_search_error>(&e)) throw *r;")
        main.append("    });")
    elif policy != "throw":
        main.append("    %s::error = [](const error_type& e) {" % P)
        main.append("        if (auto r = std::get_if<resolution_error>(&e)) throw *r;")
        main.append("        if (auto r = std::get_if<unknown_class_error>(&e)) throw *r;")
        main.append("        if (auto r = std::get_if<method_table_error>(&e)) throw *r;")
        main.append("        if (auto r = std::get_if<hash_search_error>(&e)) throw *r;")
        main.append("    };")
    main.append("    bool update_threw = false; type_id update_type = 0;")
    main.append("    decltype(update<%s>().report) report{};" % P)
    if P == "default_policy" and leave_out is None and rng.random() < 0.2:
        main.append("    update_methods(); // the deprecated spelling")
    main.append("    try { report = update<%s>().report; } catch (unknown_class_error& e) { update_threw = true; update_type = e.type; }" % P)
    # objects
    for c in range(r.n):
        if not r.abstract[c]:
            main.append("    auto so%d = std::make_shared<%s>(); %s& o%d = *so%d;" % (c, cname(c), cname(c), c, c))
    used_at_update = False
    if leave_out is not None:
        for m in r.methods:
            if leave_out in m["vp"] or any(leave_out in d for d in m["defs"]):
                used_at_update = True
        listed = any(leave_out in r.bases[c] for c in regd)
        if reg_style in ("one", "split", "mixed", "macros"):
            listed = False  # use_classes only lists the classes it is given
        used_at_update = used_at_update or listed
        lo = cname(leave_out)
        if used_at_update:
            main.append('    CHECK(update_threw && update_type == %s::static_type<%s>(), "C15:update-accepts-unregistered-class", "update: threw=%%d", (int)update_threw);' % (P, lo))
            main.append('    printf("VFB-COMBO unregistered-class-at-update/%s/%s\\n");' % (policy, reg_style))
            src = PRELUDE + GLOBALS + "\n".join(L) + "\n\n" + "\n".join(main) + EPILOGUE + "}\n"
            return Program(name, src, flavours=flavours)
    main.append('    CHECK(!update_threw, "C08:update-rejects-legal-registration", "update reported an unknown class on a legal registry (style %s)");' % reg_style)
    main.append("    if (update_threw) { printf(\"VFB-COUNT %ld\\n\", g_checks); printf(\"VFB-DONE\\n\"); return 1; }")
    nd_any = amb_any = cnd_any = camb_any = False
    for mi, m in enumerate(r.methods):
        ar = m["arity"]
        accs = [[c for c in range(r.n) if der[c][m["vp"][i]]] for i in range(ar)]
        # report oracle over all tuples
        for tup in itertools.product(*accs):
            s = select(der, m, tup)
            conc = all(not r.abstract[c] for c in tup)
            if s[0] == "NODEF":
                nd_any = True
                cnd_any = cnd_any or conc
            elif s[0] == "AMBIG":
                amb_any = True
                camb_any = camb_any or conc
        conc_accs = [[c for c in a if not r.abstract[c] and c != leave_out] for a in accs]
        tuples = list(itertools.product(*conc_accs))
        if len(tuples) > 60:
            tuples = rng.sample(tuples, 60)
        for tup in tuples:
            s = select(der, m, tup)
            # build the argument list
            args, pre = [], []
            objexpr = {i: "&o%d" % tup[i] for i in range(ar)}
            vi = 0
            for p in range(m["nparams"]):
                if p in m["positions"]:
                    k = m["kinds"][vi]
                    c = tup[vi]
                    B = cname(m["vp"][vi])
                    pa = (", " + pol) if pol else ""
                    if k in ("ref", "cref"):
                        args.append("static_cast<%s&>(o%d)" % (B, c))
                    elif k == "ptr":
                        args.append("static_cast<%s*>(&o%d)" % (B, c))
                    elif k in ("sp", "csp"):
                        pre.append("        std::shared_ptr<%s> s_%d = so%d;" % (B, vi, c))
                        args.append("s_%d" % vi)
                    elif k == "vpc":
                        how = rng.choice(["const-base-ref", "const-exact", "from-non-const", "final"] if c == m["vp"][vi] else ["const-base-ref", "const-exact", "from-non-const"])
                        if how == "const-base-ref":
                            pre.append("        virtual_ptr<const %s%s> v_%d(static_cast<const %s&>(o%d));" % (B, pa, vi, B, c))
                        elif how == "const-exact":
                            pre.append("        const %s& co_%d = o%d; virtual_ptr<const %s%s> v_%d(co_%d);" % (cname(c), vi, c, B, pa, vi, vi))
                        elif how == "final":
                            pre.append("        const %s& co_%d = o%d; auto v_%d = virtual_ptr<const %s%s>::final(co_%d);" % (cname(c), vi, c, vi, B, pa, vi))
                        else:
                            pre.append("        virtual_ptr<%s%s> w_%d(o%d); virtual_ptr<const %s%s> v_%d(w_%d);" % (cname(c), pa, vi, c, B, pa, vi, vi))
                        args.append("v_%d" % vi)
                    elif k == "vspc":
                        how = rng.choice(["const-base-sp", "const-exact-sp", "from-non-const", "make_virtual_shared"])
                        if how == "const-base-sp":
                            pre.append("        std::shared_ptr<const %s> s_%d = so%d; virtual_shared_ptr<const %s%s> v_%d(s_%d);" % (B, vi, c, B, pa, vi, vi))
                        elif how == "const-exact-sp":
                            pre.append("        std::shared_ptr<const %s> s_%d = so%d; virtual_shared_ptr<const %s%s> v_%d(s_%d);" % (cname(c), vi, c, B, pa, vi, vi))
                        elif how == "make_virtual_shared":
                            pre.append("        auto mk_%d = make_virtual_shared<const %s%s>(); virtual_shared_ptr<const %s%s> v_%d(mk_%d);" % (vi, cname(c), pa, B, pa, vi, vi))
                            objexpr[vi] = "const_cast<%s*>(mk_%d.get().get())" % (cname(c), vi)
                        else:
                            pre.append("        virtual_shared_ptr<%s%s> w_%d(so%d); virtual_shared_ptr<const %s%s> v_%d(w_%d);" % (cname(c), pa, vi, c, B, pa, vi, vi))
                        args.append("v_%d" % vi)
                    elif k in ("vp", "cvp"):
                        how = rng.choice(["base-ref", "exact", "copy", "conv", "final_virtual_ptr"] + ["final"] * (6 if getattr(r, "focus", None) == "C09" else 1) + ([] if pol else ["deduction-guide"]))
                        if how == "final_virtual_ptr":
                            pre.append("        auto f_%d = final_virtual_ptr%s(o%d); virtual_ptr<%s%s> v_%d(f_%d);" % (vi, ("<%s>" % pol) if pol else "", c, B, pa, vi, vi))
                        elif how == "deduction-guide":
                            pre.append("        auto g_%d = virtual_ptr(o%d); virtual_ptr<%s> v_%d(g_%d);" % (vi, c, B, vi, vi))
                        elif how == "base-ref":
                            pre.append("        virtual_ptr<%s%s> v_%d(static_cast<%s&>(o%d));" % (B, pa, vi, B, c))
                        elif how == "exact":
                            pre.append("        virtual_ptr<%s%s> v_%d(o%d);" % (B, pa, vi, c))
                        elif how == "final":
                            # (the object's static type is its exact class, possibly derived from the pointer's)
                            pre.append("        auto v_%d = virtual_ptr<%s%s>::final(o%d);" % (vi, B, pa, c))
                        elif how == "copy":
                            pre.append("        virtual_ptr<%s%s> w_%d(static_cast<%s&>(o%d)); virtual_ptr<%s%s> v_%d(w_%d);" % (B, pa, vi, B, c, B, pa, vi, vi))
                        else:
                            pre.append("        virtual_ptr<%s%s> w_%d(o%d); virtual_ptr<%s%s> v_%d(std::move(w_%d));" % (cname(c), pa, vi, c, B, pa, vi, vi))
                        args.append("v_%d" % vi)
                    else:
                        how = rng.choice(["base-sp", "exact-sp", "conv", "make_virtual_shared"])
                        if how == "make_virtual_shared":
                            # a new object of exactly class c; the definition must see *that* object
                            pre.append("        auto mk_%d = make_virtual_shared<%s%s>(); virtual_shared_ptr<%s%s> v_%d(mk_%d);" % (vi, cname(c), pa, B, pa, vi, vi))
                            objexpr[vi] = "mk_%d.get().get()" % vi
                        elif how == "base-sp":
                            pre.append("        std::shared_ptr<%s> s_%d = so%d; virtual_shared_ptr<%s%s> v_%d(s_%d);" % (B, vi, c, B, pa, vi, vi))
                        elif how == "exact-sp":
                            pre.append("        virtual_shared_ptr<%s%s> v_%d(so%d);" % (B, pa, vi, c))
                        else:
                            pre.append("        virtual_shared_ptr<%s%s> w_%d(so%d); virtual_shared_ptr<%s%s> v_%d(w_%d);" % (cname(c), pa, vi, c, B, pa, vi, vi))
                        args.append("v_%d" % vi)
                    vi += 1
                else:
                    t = m["ptypes"][p]
                    args.append({"int": "%d" % (7 + p), "double": "%d.5" % p, "const std::string&": "g_str"}[t])
            call = "M%d::fn(%s)" % (mi, ", ".join(args)) if m["api"] != "macro" or rng.random() < 0.5 else "%s(%s)" % (m["qual"], ", ".join(args))
            tdesc = "m%d(%s)" % (mi, ",".join(cname(c) for c in tup))
            main.append("    {")
            main += pre
            main.append("        g_ran_method = g_ran_def = -1; g_next_ptr = nullptr; int res = -1; int st = 0; size_t ear = 0; type_id ety[4] = {0,0,0,0};")
            main.append("        try { res = %s; } catch (resolution_error& e) { st = e.status; ear = e.arity; for (int i = 0; i < 4; ++i) ety[i] = e.types[i]; }" % call)
            if s[0] == "DEF":
                d = s[1]
                main.append('        CHECK(st == 0 && g_ran_method == %d && g_ran_def == %d && res == %d, "C01:wrong-definition", "%s: ran m%%d/def%%d status %%d, expected def %d", g_ran_method, g_ran_def, st);' % (mi, d, 100 * mi + d, tdesc, d))
                if any(k in ("vp", "cvp", "vsp", "cvsp", "vpc", "vspc") for k in m["kinds"]):
                    # the same statement, as C09 puts it: what a plain reference would run (the oracle's answer)
                    main.append('        CHECK(st == 0 && g_ran_method == %d && g_ran_def == %d, "C09:call-through-virtual_ptr-runs-another-definition", "%s: ran m%%d/def%%d status %%d, a plain reference runs def %d", g_ran_method, g_ran_def, st);' % (mi, d, tdesc, d))
                # the definition saw the caller's objects, viewed as its classes
                for i in range(ar):
                    main.append('        CHECK(st != 0 || g_seen[%d] == (const void*)static_cast<%s*>(%s), "C11:wrong-object:%s:generated-hierarchy", "%s: virtual argument %d is not the caller\'s object viewed as %s");' % (i, cname(m["defs"][d][i]), objexpr[i], m["kinds"][i], tdesc, i, cname(m["defs"][d][i])))
                for i in range(ar):
                    if m["kinds"][i] in ("vp", "cvp", "vsp", "cvsp", "vpc", "vspc"):
                        main.append('        CHECK(st != 0 || g_vptr_ok[%d], "C09:virtual_ptr-received-by-definition-carries-foreign-vtable:%s", "%s: the virtual_ptr passed to the definition for virtual argument %d does not carry the v-table of the pointee\'s class (a call through it would not run what a plain reference runs)");' % (i, m["kinds"][i], tdesc, i))
                nx = next_of(der, m, d)
                if m.get("no_next"):
                    pass  # a container without a next member: nothing to look at
                elif nx[0] == "DEF":
                    main.append('        CHECK(st != 0 || next_is(%d, %d, g_next_ptr), "C03:next:def-expected", "%s: next of def %d is not def %d");' % (mi, nx[1], tdesc, d, nx[1]))
                elif nx[0] == "NODEF":
                    main.append('        CHECK(st != 0 || g_next_ptr == (void*)M%d::fn.not_implemented, "C03:next:no_definition-expected", "%s: next of def %d is not the not-implemented error");' % (mi, tdesc, d))
                else:
                    main.append('        CHECK(st != 0 || g_next_ptr == (void*)M%d::fn.ambiguous, "C03:next:ambiguous-expected", "%s: next of def %d is not the ambiguity error");' % (mi, tdesc, d))
            else:
                want = 1 if s[0] == "NODEF" else 2
                main.append('        CHECK(g_ran_def == -1 && st == %d, "C02:wrong-status-or-definition-ran", "%s: status %%d ran def %%d, expected status %d", st, g_ran_def);' % (want, tdesc, want))
                main.append('        CHECK(st == 0 || ear == %d, "C02:wrong-arity", "%s: arity %%zu", ear);' % (ar, tdesc))
                for i in range(ar):
                    main.append('        CHECK(st == 0 || ety[%d] == %s::static_type<%s>(), "C02:wrong-types", "%s: types[%d] is not the dynamic class of virtual argument %d");' % (i, P, cname(tup[i]), tdesc, i, i))
            main.append("    }")
        # calls with an object of the unregistered class (checked policy): reported, nothing runs
        if leave_out is not None and not r.abstract[leave_out]:
            for i in range(ar):
                if not der[leave_out][m["vp"][i]]:
                    continue
                tup = []
                ok = True
                for j in range(ar):
                    if j == i:
                        tup.append(leave_out)
                    else:
                        cand = [c for c in conc_accs[j]]
                        if not cand:
                            ok = False
                            break
                        tup.append(rng.choice(cand))
                if not ok:
                    continue
                args, pre = [], []
                vi = 0
                for p in range(m["nparams"]):
                    if p in m["positions"]:
                        k = m["kinds"][vi]
                        c = tup[vi]
                        B = cname(m["vp"][vi])
                        pa = (", " + pol) if pol else ""
                        if k in ("ref", "cref"):
                            args.append("static_cast<%s&>(o%d)" % (B, c))
                        elif k == "ptr":
                            args.append("static_cast<%s*>(&o%d)" % (B, c))
                        elif k in ("sp", "csp"):
                            pre.append("            std::shared_ptr<%s> s_%d = so%d;" % (B, vi, c))
                            args.append("s_%d" % vi)
                        elif k == "vpc":
                            pre.append("            virtual_ptr<const %s%s> v_%d(static_cast<const %s&>(o%d));" % (B, pa, vi, B, c))
                            args.append("v_%d" % vi)
                        elif k == "vspc":
                            pre.append("            std::shared_ptr<const %s> s_%d = so%d; virtual_shared_ptr<const %s%s> v_%d(s_%d);" % (B, vi, c, B, pa, vi, vi))
                            args.append("v_%d" % vi)
                        elif k in ("vp", "cvp"):
                            how = rng.choice(["base-ref", "exact", "final", "final_virtual_ptr"]) if c == leave_out else "base-ref"
                            if how == "final":
                                pre.append("            auto f_%d = virtual_ptr<%s%s>::final(o%d); virtual_ptr<%s%s> v_%d(f_%d);" % (vi, cname(c), pa, c, B, pa, vi, vi))
                            elif how == "final_virtual_ptr":
                                pre.append("            auto f_%d = final_virtual_ptr%s(o%d); virtual_ptr<%s%s> v_%d(f_%d);" % (vi, ("<%s>" % pol) if pol else "", c, B, pa, vi, vi))
                            else:
                                pre.append("            virtual_ptr<%s%s> v_%d(%s);" % (B, pa, vi, ("static_cast<%s&>(o%d)" % (B, c)) if how == "base-ref" else "o%d" % c))
                            args.append("v_%d" % vi)
                        else:
                            how = rng.choice(["base-sp", "exact-sp", "final-sp"]) if c == leave_out else "base-sp"
                            if how == "final-sp":
                                pre.append("            auto f_%d = virtual_shared_ptr<%s%s>::final(std::shared_ptr<%s>(so%d)); virtual_shared_ptr<%s%s> v_%d(f_%d);" % (vi, cname(c), pa, cname(c), c, B, pa, vi, vi))
                            elif how == "base-sp":
                                pre.append("            std::shared_ptr<%s> s_%d = so%d; virtual_shared_ptr<%s%s> v_%d(s_%d);" % (B, vi, c, B, pa, vi, vi))
                            else:
                                pre.append("            virtual_shared_ptr<%s%s> v_%d(so%d);" % (B, pa, vi, c))
                            args.append("v_%d" % vi)
                        vi += 1
                    else:
                        t = m["ptypes"][p]
                        args.append({"int": "1", "double": "2.5", "const std::string&": "g_str"}[t])
                main.append("    {")
                main.append("        g_ran_def = -1; bool reported = false; type_id rt = 0;")
                main.append("        try {")
                main += pre
                main.append("            M%d::fn(%s);" % (mi, ", ".join(args)))
                main.append("        } catch (unknown_class_error& e) { reported = true; rt = e.type; } catch (resolution_error&) {}")
                main.append('        CHECK(reported && rt == %s::static_type<%s>() && g_ran_def == -1, "C15:unregistered-class-not-reported:%s", "m%d: object of the unregistered class %s at virtual position %d: reported=%%d ran def %%d", (int)reported, g_ran_def);' % (P, cname(leave_out), m["kinds"][i], mi, cname(leave_out), i))
                main.append("    }")
    if leave_out is not None and not r.abstract[leave_out]:
        # virtual_ptr construction alone must report the unregistered class, on every route
        X = cname(leave_out)
        pa = (", " + pol) if pol else ""
        probes = [("exact-type", "virtual_ptr<%s%s> p(o%d); (void)p;" % (X, pa, leave_out)),
                  ("final", "auto p = virtual_ptr<%s%s>::final(o%d); (void)p;" % (X, pa, leave_out)),
                  ("final_virtual_ptr", "auto p = final_virtual_ptr%s(o%d); (void)p;" % (("<%s>" % pol) if pol else "", leave_out)),
                  ("shared-exact-type", "virtual_shared_ptr<%s%s> p(so%d); (void)p;" % (X, pa, leave_out)),
                  ("shared-final", "auto p = virtual_shared_ptr<%s%s>::final(std::shared_ptr<%s>(so%d)); (void)p;" % (X, pa, X, leave_out))]
        for b in range(r.n):
            if b != leave_out and der[leave_out][b]:
                probes.append(("from-base-reference", "virtual_ptr<%s%s> p(static_cast<%s&>(o%d)); (void)p;" % (cname(b), pa, cname(b), leave_out)))
                probes.append(("shared-from-base", "std::shared_ptr<%s> sb = so%d; virtual_shared_ptr<%s%s> p(sb); (void)p;" % (cname(b), leave_out, cname(b), pa)))
                break
        for pname, code in probes:
            main.append("    { bool reported = false; type_id rt = 0; try { %s } catch (unknown_class_error& e) { reported = true; rt = e.type; } catch (method_table_error&) {}" % code)
            main.append('      CHECK(reported && rt == %s::static_type<%s>(), "C15:virtual_ptr-to-unregistered-class-constructed:%s", "constructing a virtual_ptr to an object of the unregistered class %s (%s): reported=%%d", (int)reported); }' % (P, X, pname, X, pname))
    if leave_out is None:
        main.append('    CHECK((report.not_implemented != 0) == %s, "C17:report:not_implemented", "report.not_implemented = %%zu", report.not_implemented);' % ("true" if nd_any else "false"))
        main.append('    CHECK((report.ambiguous != 0) == %s, "C17:report:ambiguous", "report.ambiguous = %%zu", report.ambiguous);' % ("true" if amb_any else "false"))
        main.append('    CHECK((report.concrete_not_implemented != 0) == %s, "C17:report:concrete_not_implemented", "report.concrete_not_implemented = %%zu", report.concrete_not_implemented);' % ("true" if cnd_any else "false"))
        main.append('    CHECK((report.concrete_ambiguous != 0) == %s, "C17:report:concrete_ambiguous", "report.concrete_ambiguous = %%zu", report.concrete_ambiguous);' % ("true" if camb_any else "false"))
    mi_flag = "mi" if any(len(b) > 1 for b in r.bases) else "si"
    vb_flag = "virtual-bases" if any(vb) else "no-virtual-bases"
    combo = "%s/%s/%s/%s/%s/classes=%d/methods=%s%s" % (r.kind, mi_flag, vb_flag, policy, reg_style, r.n,
                                                        "+".join("%s%s:%s" % (m["api"], "@" + m["qual"] if m["qual"].startswith("ns") else "", "".join(k[0] for k in m["kinds"])) for m in r.methods),
                                                        ("/unregistered=%d" % leave_out) if leave_out is not None else "")
    main.append('    printf("VFB-COMBO %s\\n");' % combo)
    # helper: is g_next_ptr the thunk of definition (mi, di)?  compare with the catalog entry
    helpers = ["static bool next_is(int mi, int di, void* p) {", "    return g_pf[mi][di] == p;", "}"]
    fill = ["static void fill_pf() {"]
    for mi, m in enumerate(r.methods):
        for di, d in enumerate(m["defs"]):
            conds = " && ".join("d.vp_begin[%d] == %s::static_type<%s>()" % (i, P, cname(c)) for i, c in enumerate(d))
            fill.append("    for (auto& d : M%d::fn.specs) if (%s) g_pf[%d][%d] = d.pf;" % (mi, conds, mi, di))
    fill.append("}")
    src = PRELUDE + GLOBALS + "\n".join(L) + "\n\n" + "\n".join(helpers) + "\n" + "\n".join(fill) + "\n\n" + "\n".join(main)
    # fill_pf must run after update (type ids are stable, pf too): insert after the update line
    src = src.replace("catch (unknown_class_error& e) { update_threw = true; update_type = e.type; }\n", "catch (unknown_class_error& e) { update_threw = true; update_type = e.type; }\n    fill_pf();\n", 1)
    src += EPILOGUE + "}\n"
    return Program(name, src, combos=[combo], flavours=flavours)


GLOBALS = r'''
static int g_ran_method = -1, g_ran_def = -1;
static void* g_next_ptr = nullptr;
static const void* g_seen[4];
static bool g_vptr_ok[4] = {true, true, true, true};
static void* g_pf[8][8];
static std::string g_str = "hello";
'''


def repeated_base_program(name, seed, flavours):
    """a registered class inherits a registered class twice, non-virtually, through two
    UNREGISTERED mix-ins; use_classes derives the relation from std::is_base_of"""
    rng = random.Random(seed)
    r = Reg()
    r.n = 4  # 0 Animal, 1 Dog, 2 Bulldog, 3 Cat
    r.bases = [[], [0], [1], [0]]
    r.abstract = [False] * 4
    der = r.closure()
    names = ["Animal", "Dog", "Bulldog", "Cat"]
    L = ["struct Animal { virtual ~Animal() {} int ta = 1; };",
         "struct Named : Animal { int tn = 2; };      // not registered",
         "struct Tracked : Animal { int tt = 3; };    // not registered",
         "struct Dog : Named, Tracked { int td = 4; };",
         "struct Bulldog : Dog { int tb = 5; };",
         "struct Cat : Animal { int tc = 6; };"]
    style = rng.choice(["one", "split", "split2"])
    if style == "one":
        order = names[:]
        rng.shuffle(order)
        L.append("static use_classes<%s> YOMM2_GENSYM;" % ", ".join(order))
    elif style == "split":
        L.append("static use_classes<Animal, Cat> YOMM2_GENSYM;")
        L.append("static use_classes<Dog, Animal> YOMM2_GENSYM;")
        L.append("static use_classes<Bulldog, Dog> YOMM2_GENSYM;")
    else:
        L.append("static use_classes<Bulldog, Dog, Animal> YOMM2_GENSYM;")
        L.append("static use_classes<Cat, Animal> YOMM2_GENSYM;")
    methods = []
    # a uni-method on Animal, one on Dog (takes the neighbouring slot), a multi-method
    for mi, (vp, ar) in enumerate([([0], 1), ([1], 1), ([0, 0], 2)]):
        defs = []
        for _ in range(rng.randint(1, 4)):
            d = [rng.choice([c for c in range(4) if der[c][v]]) for v in vp]
            if d not in defs:
                defs.append(d)
        methods.append(dict(arity=ar, vp=vp, defs=defs))
    L.append("static int g_ran = -1;")
    for mi, m in enumerate(methods):
        L.append("struct K%d;" % mi)
        L.append("using M%d = method<K%d, int(%s)>;" % (mi, mi, ", ".join("virtual_<%s&>" % names[v] for v in m["vp"])))
        for di, d in enumerate(m["defs"]):
            L.append("static int def_%d_%d(%s) { g_ran = %d; %s return %d; }" % (
                mi, di, ", ".join("%s& a%d" % (names[c], i) for i, c in enumerate(d)), 100 * mi + di,
                " ".join("g_seen[%d] = &a%d;" % (i, i) for i in range(len(d))), 100 * mi + di))
            L.append("static M%d::add_function<def_%d_%d> reg_%d_%d;" % (mi, mi, di, mi, di))
    main = ["int main() {",
            "    default_policy::error = [](const error_type& e) { if (auto r = std::get_if<resolution_error>(&e)) throw *r; if (auto u = std::get_if<unknown_class_error>(&e)) throw *u; };",
            "    bool ok = true; try { update(); } catch (unknown_class_error&) { ok = false; }",
            '    CHECK(ok, "C08:update-rejects-legal-registration", "update reported an unknown class");',
            "    if (!ok) { printf(\"VFB-COUNT %ld\\nVFB-DONE\\n\", g_checks); return 1; }",
            "    Animal animal; Dog dog; Bulldog bulldog; Cat cat;"]
    # expressions giving a reference of static type T to each object (both paths for the repeated base)
    def exprs(obj_cls, static_cls):
        o = ["animal", "dog", "bulldog", "cat"][obj_cls]
        if static_cls == 0 and obj_cls in (1, 2):
            return ["static_cast<Animal&>(static_cast<Named&>(%s))" % o, "static_cast<Animal&>(static_cast<Tracked&>(%s))" % o]
        return ["static_cast<%s&>(%s)" % (names[static_cls], o)]
    for mi, m in enumerate(methods):
        accs = [[c for c in range(4) if der[c][v]] for v in m["vp"]]
        for tup in itertools.product(*accs):
            sel = select(der, m, tup)
            choices = [exprs(c, v) for c, v in zip(tup, m["vp"])]
            for args in itertools.product(*choices):
                tdesc = "m%d(%s)" % (mi, ",".join(names[c] for c in tup))
                main.append("    { g_ran = -1; int st = 0; try { M%d::fn(%s); } catch (resolution_error& e) { st = e.status; }" % (mi, ", ".join(args)))
                if sel[0] == "DEF":
                    main.append('      CHECK(st == 0 && g_ran == %d, "C01:wrong-definition:repeated-base-through-unregistered-classes", "%s ran %%d status %%d, expected %d", g_ran, st); }' % (100 * mi + sel[1], tdesc, 100 * mi + sel[1]))
                else:
                    w = 1 if sel[0] == "NODEF" else 2
                    main.append('      CHECK(st == %d && g_ran == -1, "C02:wrong-status-or-definition-ran", "%s ran %%d status %%d, expected status %d", g_ran, st); }' % (w, tdesc, w))
    combo = "repeated-non-virtual-base-through-unregistered-mixins/%s/defs=%s" % (style, "+".join(str(len(m["defs"])) for m in methods))
    main.append('    printf("VFB-COMBO %s\\n");' % combo)
    src = PRELUDE + GLOBALS + "\n".join(L) + "\n\n" + "\n".join(main) + EPILOGUE + "}\n"
    return Program(name, src, combos=[combo], flavours=flavours)


def nonpublic_base_program(name, seed, flavours):
    """a registered class derives from a registered class through protected inheritance;
    std::is_base_of (what use_classes documents) still sees the relationship"""
    rng = random.Random(seed)
    style = rng.choice(["one", "split"])
    L = ["struct Widget { virtual ~Widget() {} int tw = 1; };",
         "struct Button : Widget { int tb = 2; };",
         "struct K0; struct K1;",
         "using Describe = method<K0, int(virtual_<Widget&>)>;",
         "struct Overlay : protected Widget { int to = 3; int describe_self() { return Describe::fn(*this); } };",
         "struct Tooltip : Overlay { int tt = 4; int describe_tip() { return Describe::fn(*this); } };",
         "using Frame = method<K1, int(virtual_<Overlay&>)>;"]
    if style == "one":
        order = ["Widget", "Button", "Overlay", "Tooltip"]
        rng.shuffle(order)
        L.append("static use_classes<%s> YOMM2_GENSYM;" % ", ".join(order))
    else:
        L.append("static use_classes<Widget, Button> YOMM2_GENSYM;")
        L.append("static use_classes<Tooltip, Overlay, Widget> YOMM2_GENSYM;")
    with_button = rng.random() < 0.5
    L.append("static int describe_widget(Widget&) { return 10; }")
    L.append("static Describe::add_function<describe_widget> r0;")
    if with_button:
        L.append("static int describe_button(Button&) { return 11; }")
        L.append("static Describe::add_function<describe_button> r1;")
    L.append("static int frame_overlay(Overlay&) { return 20; }")
    L.append("static Frame::add_function<frame_overlay> r2;")
    tip = rng.random() < 0.6
    if tip:
        L.append("static int frame_tooltip(Tooltip&) { return 21; }")
        L.append("static Frame::add_function<frame_tooltip> r3;")
    main = ["int main() {",
            "    default_policy::error = [](const error_type& e) { if (auto r = std::get_if<resolution_error>(&e)) throw *r; if (auto u = std::get_if<unknown_class_error>(&e)) throw *u; };",
            "    bool ok = true; try { update(); } catch (unknown_class_error&) { ok = false; }",
            '    CHECK(ok, "C08:update-rejects-legal-registration", "update reported an unknown class");',
            "    if (!ok) { printf(\"VFB-COUNT %ld\\nVFB-DONE\\n\", g_checks); return 1; }",
            "    Widget w; Button b; Overlay o; Tooltip t;",
            "    auto call = [](auto f) { try { return f(); } catch (resolution_error& e) { return -(int)e.status; } };",
            '    CHECK(call([&] { return Describe::fn(w); }) == 10, "C08:non-public-base:wrong-dispatch", "describe(Widget)");',
            '    CHECK(call([&] { return Describe::fn(b); }) == %d, "C08:non-public-base:wrong-dispatch", "describe(Button)");' % (11 if with_button else 10),
            '    CHECK(call([&] { return o.describe_self(); }) == 10, "C08:non-public-base:derived-class-not-accepted-where-base-is-expected", "describe(Overlay viewed as its protected base Widget)");',
            '    CHECK(call([&] { return t.describe_tip(); }) == 10, "C08:non-public-base:derived-class-not-accepted-where-base-is-expected", "describe(Tooltip viewed as Widget)");',
            '    CHECK(call([&] { return Frame::fn(o); }) == 20, "C08:non-public-base:wrong-dispatch", "frame(Overlay)");',
            '    CHECK(call([&] { return Frame::fn(t); }) == %d, "C08:non-public-base:wrong-dispatch", "frame(Tooltip)");' % (21 if tip else 20)]
    combo = "protected-base-between-registered-classes/%s/button=%d/tooltip=%d" % (style, with_button, tip)
    main.append('    printf("VFB-COMBO %s\\n");' % combo)
    src = PRELUDE + GLOBALS + "\n".join(L) + "\n\n" + "\n".join(main) + EPILOGUE + "}\n"
    return Program(name, src, combos=[combo], flavours=flavours)


def programs(tier, seed, focus=None):
    rng = random.Random(seed * 31 + 7)
    out = []
    n = (14 if focus == "C09" else 10) if tier == "quick" else 90
    styles = ["one", "split", "direct", "mixed", "macros"]
    pols = ["default", "default", "map", "indirect", "throw", "debug", "custom", "deferred"]
    if focus == "C10":
        pols = ["custom", "deferred"]
    if focus == "C09":
        pols = ["indirect", "default", "indirect", "map", "indirect", "debug", "throw", "indirect"]
    for k in range(n):
        r = gen_registry(rng, 8 if tier == "quick" else 10, focus, k)
        policy = pols[k % len(pols)]
        style = styles[(k // 2) % len(styles)]
        flav = ["clang-asan"] if k % 3 else ["clang-asan-ndebug"]
        if tier != "quick" and k % 5 == 0:
            flav = ["gcc-rel"]
        leave = None
        if focus == "C15" or (k % 5 == 4):
            # an unregistered class needs a checked policy: debug builds of default / debug / indirect
            if policy in ("default", "debug", "indirect", "throw") and "ndebug" not in flav[0] and flav[0] != "gcc-rel":
                cand = [c for c in range(r.n)]
                leave = rng.choice(cand)
                # classes derived from it cannot be registered either: keep it a leaf
                der = r.closure()
                if any(der[d][leave] and d != leave for d in range(r.n)):
                    leaves = [c for c in range(r.n) if not any(der[d][c] and d != c for d in range(r.n))]
                    leave = rng.choice(leaves)
                if policy == "throw":
                    policy = "debug"
        out.append(emit(r, rng, "disp-s%d-p%d" % (seed, k), policy, style, flav, leave))
    for k in range(1 if tier == "quick" else 6):
        out.append(repeated_base_program("disp-s%d-rb%d" % (seed, k), seed * 17 + k, ["clang-asan"] if k % 2 == 0 else ["clang-asan-ndebug"]))
        out.append(nonpublic_base_program("disp-s%d-np%d" % (seed, k), seed * 19 + k, ["clang-asan-ndebug"] if k % 2 == 0 else ["clang-asan"]))
    return out

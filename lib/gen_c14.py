"""C14 tier B: several policies in one program, through the public front-end.

The tier-A harness fills registration records by hand, so it cannot see state
that the *front-end* keeps per policy (the definition records of add_function,
the class records of class_declaration, the method objects).  These programs
declare, in two to four policies, methods with the SAME key and signature, add
the SAME functions to them (each policy its own subset), register the same
classes everywhere, interleave updates and handler changes, and check every
policy against a table computed by the generator after every step.
"""
import random

from tierb import PRELUDE, EPILOGUE, Program

POLICY_DEFS = {
    # built rebind-first, replace-first / rebind-last, with vptr_map, with indirect vptrs, from debug and from release
    "pa": "struct pa : default_policy::rebind<pa> {};",
    "pb": "struct pb : default_policy::replace<policy::external_vptr, policy::vptr_map<default_policy>>::rebind<pb> {};",
    "pc": "struct pc : policy::debug::rebind<pc>::replace<policy::error_handler, policy::throw_error> {};",
    "pd": "struct pd : policy::release::rebind<pd>, policy::basic_indirect_vptr<pd> {};",
    # the stock policies themselves: the shared-library flavour, and whichever of debug / release is not the default
    "sh": "using sh = policy::debug_shared;",
    "os": "#ifdef NDEBUG\nusing os = policy::debug;\n#else\nusing os = policy::release;\n#endif",
}


def program(name, seed, flavours, force=()):
    rng = random.Random(seed)
    n = rng.randint(3, 6)
    parent = [None] + [rng.randrange(i) for i in range(1, n)]  # a tree rooted at class 0

    def ancestors(c):
        out = []
        while c is not None:
            out.append(c)
            c = parent[c]
        return out
    pols = ["default_policy"] + rng.sample(sorted(POLICY_DEFS), rng.randint(1, 3))
    if rng.random() < 0.4 and "sh" not in pols:
        pols.append("sh")
    for f in force:
        if f not in pols:
            pols.append(f)
    nmeth = rng.randint(1, 2)
    L = ["#include <yorel/yomm2/policies/vptr_map.hpp>", "#include <stdexcept>"]
    for p in pols[1:]:
        L.append(POLICY_DEFS[p])
    for c in range(n):
        L.append("struct C%d%s { %s int tag%d = %d; };" % (c, "" if parent[c] is None else " : C%d" % parent[c],
                                                          "virtual ~C0() {}" if c == 0 else "", c, c))
    # the same classes in every policy, plus a few that only one policy knows (so that hash
    # parameters and table layouts differ between policies); registration style varies
    L.append("template<int P, int K> struct Extra : C0 {};")
    extras = {}
    for pi, p in enumerate(pols):
        suffix = "" if p == "default_policy" else ", " + p
        ne = rng.choice([0, 1, 2, 3, 5, 8, 13])
        extras[pi] = ne
        if ne:
            L.append("static use_classes<C0, %s%s> YOMM2_GENSYM;" % (", ".join("Extra<%d, %d>" % (pi, k) for k in range(ne)), suffix))
        if rng.random() < 0.5:
            L.append("static use_classes<%s%s> YOMM2_GENSYM;" % (", ".join("C%d" % c for c in range(n)), suffix))
        else:
            for c in range(n):
                L.append("static use_classes<C%d%s%s> YOMM2_GENSYM;" % (c, "" if parent[c] is None else ", C%d" % parent[c], suffix))
    # the shared pool of definition functions (one per class and method)
    for m in range(nmeth):
        L.append("struct key%d;" % m)
        for c in range(n):
            L.append("static int def%d_%d(C%d& o) { return %d + o.tag%d * 0; }" % (m, c, c, 100 * m + c, c))
    chosen = {}
    for pi, p in enumerate(pols):
        for m in range(nmeth):
            M = "method<key%d, int(virtual_<C0&>)%s>" % (m, "" if p == "default_policy" else ", " + p)
            L.append("using M%d_%d = %s;" % (pi, m, M))
            sub = sorted(rng.sample(range(n), rng.randint(0, n)))
            chosen[(pi, m)] = sub
            for c in sub:
                L.append("static M%d_%d::add_function<def%d_%d> reg%d_%d_%d;" % (pi, m, m, c, pi, m, c))
    L.append("struct handler_tag { int policy; resolution_error err; };")
    main = ["int main() {", "    bool updated[%d] = {};" % len(pols)]
    # per-policy handlers (throwing a tag that names the policy)
    for pi, p in enumerate(pols):
        if p == "pc":
            continue  # throw_error facet: throws resolution_error itself
        main.append("    %s::error = [](const error_type& e) { if (auto r = std::get_if<resolution_error>(&e)) throw handler_tag{%d, *r}; if (std::get_if<method_table_error>(&e) || std::get_if<unknown_class_error>(&e)) throw handler_tag{%d, resolution_error()}; };" % (p, pi, pi))
    objs = "    " + " ".join("C%d o%d;" % (c, c) for c in range(n))
    main.append(objs)

    def expect(pi, m, c):
        for a in ancestors(c):
            if a in chosen[(pi, m)]:
                return 100 * m + a
        return None

    def check_policy(pi, label):
        out = []
        for m in range(nmeth):
            for c in range(n):
                e = expect(pi, m, c)
                out.append("    { int r = -1; int who = -1; try { r = M%d_%d::fn(o%d); } catch (handler_tag& t) { who = t.policy; r = -2; } catch (resolution_error&) { who = %d; r = -2; }" % (pi, m, c, pi))
                if e is None:
                    out.append('      CHECK(r == -2 && who == %d, "C14:front-end:wrong-outcome-or-foreign-handler", "%s: policy %s method %d class C%d: result %%d, handler of policy %%d (expected the error handler of policy %d)", r, who); }' % (pi, label, pols[pi], m, c, pi))
                else:
                    out.append('      CHECK(r == %d, "C14:front-end:wrong-definition", "%s: policy %s method %d class C%d: result %%d, expected %d", r); }' % (e, label, pols[pi], m, c, e))
        # an error that does not come from a method call: final on an object of another dynamic type goes
        # to the handler of the pointer's policy (only policies with run-time checks notice)
        if n > 1:
            d = 1
            pol = pols[pi]
            out.append("    if constexpr (%s::has_facet<policy::runtime_checks>) { int who = -1; try { C0& base = o%d; auto vp = virtual_ptr<C0, %s>::final(base); (void)vp; } catch (handler_tag& t) { who = t.policy; } catch (method_table_error&) { who = %d; }" % (pol, d, pol, pi))
            out.append('      CHECK(who == %d, "C14:front-end:final-misuse-reported-to-foreign-handler", "%s: virtual_ptr<C0, %s>::final on a C%d object: error delivered to the handler of policy %%d (expected %d)", who); }' % (pi, label, pol, d, pi))
        # ...and a call with an object of a class that only ANOTHER policy knows: unknown class, reported
        # to this policy's handler (checked hash + v-table pointer vector only: nothing else checks)
        other = [pj for pj in range(len(pols)) if pj != pi and extras.get(pj)]
        if other:
            pj = other[0]
            pol = pols[pi]
            out.append("    if constexpr (%s::has_facet<policy::runtime_checks> && std::is_base_of_v<policy::vptr_vector<%s>, %s>) { int who = -1; static Extra<%d, 0> foreign; try { M%d_0::fn(foreign); who = -3; } catch (handler_tag& t) { who = t.policy; } catch (unknown_class_error&) { who = %d; } catch (resolution_error&) { who = -4; }" % (pol, pol, pol, pj, pi, pi))
            out.append('      CHECK(who == %d, "C14:front-end:unknown-class-reported-to-foreign-handler-or-not-at-all", "%s: policy %s called with an object of a class registered only in policy %s: outcome %%d (expected the handler of policy %d)", who); }' % (pi, label, pol, pols[pj], pi))
        return out
    # interleaved history: update policies in random order, re-check every already-updated policy after each step
    order = list(range(len(pols)))
    rng.shuffle(order)
    steps = order + [rng.choice(order) for _ in range(rng.randint(0, 3))]
    done = []
    for si, pi in enumerate(steps):
        p = pols[pi]
        main.append("    update<%s>();" % p)
        if pi not in done:
            done.append(pi)
        for q in done:
            main += check_policy(q, "after step %d (update<%s>)" % (si, p))
        if rng.random() < 0.4 and p != "pc":
            # replacing one policy's handler must not change another policy's
            main.append("    %s::error = [](const error_type& e) { if (auto r = std::get_if<resolution_error>(&e)) throw handler_tag{%d, *r}; if (std::get_if<method_table_error>(&e) || std::get_if<unknown_class_error>(&e)) throw handler_tag{%d, resolution_error()}; };" % (p, pi, pi))
            for q in done:
                main += check_policy(q, "after step %d (handler of %s set again)" % (si, p))
    # catalogs: every policy has its own methods and each method its own definitions
    for pi, p in enumerate(pols):
        main.append('    CHECK(%s::methods.size() == %d, "C14:front-end:method-catalog", "policy %s has %%zu methods", (size_t)%s::methods.size());' % (p, nmeth, p, p))
        for m in range(nmeth):
            main.append('    CHECK(M%d_%d::fn.specs.size() == %d, "C14:front-end:definition-catalog", "policy %s method %d has %%zu definitions, %d were added", (size_t)M%d_%d::fn.specs.size());' % (pi, m, len(chosen[(pi, m)]), p, m, len(chosen[(pi, m)]), pi, m))
    combo = "policies=%s/classes=%d/methods=%d/steps=%d" % ("+".join(pols), n, nmeth, len(steps))
    main.append('    printf("VFB-COMBO %s\\n");' % combo)
    src = PRELUDE + "\n".join(L) + "\n\n" + "\n".join(main) + EPILOGUE + "}\n"
    return Program(name, src, combos=[combo], flavours=flavours)


def programs(tier, seed):
    out = []
    n = 6 if tier == "quick" else 40
    for k in range(n):
        flav = ["clang-asan"] if k % 2 == 0 else ["clang-asan-ndebug"]
        if tier != "quick" and k % 5 == 4:
            flav = ["gcc-rel"]
        # the first two programs always have the stock policies side by side (debug build: default = debug,
        # release build: default = release), the others draw their policies at random
        out.append(program("c14fe-s%d-%d" % (seed, k), seed * 101 + k, flav, force=("sh", "os") if k < 2 else ()))
    return out

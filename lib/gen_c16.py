"""C16 tier B: threads through the public front-end, with the stock policies.

The tier-A harness runs its threads on policies of its own (custom rtti facet).
These generated programs use the library as a user would: methods declared in
the default policy are called from several threads (plain references,
virtual_ptr built on the fly and ahead of time, resolve-like probes through
next), while one more thread keeps running update on ANOTHER policy - the
shared-library flavour of the stock policy, the other static stock policy, or a
policy derived with rebind / replace - that knows the same classes plus a few of
its own.  Compiled with -fsanitize=thread (reports are fatal) and, in thorough,
also with ASan; every call is compared with the answer computed single-threaded
before the threads start.
"""
import random

from tierb import PRELUDE, EPILOGUE, Program

OTHERS = {
    "shared": "using other = policy::debug_shared;",
    "other-static": "#ifdef NDEBUG\nusing other = policy::debug;\n#else\nusing other = policy::release;\n#endif",
    "rebind": "struct other : default_policy::rebind<other> {};",
    "map-rebind-last": "struct other : default_policy::replace<policy::external_vptr, policy::vptr_map<default_policy>>::rebind<other> {};",
    "indirect": "struct other : policy::release::rebind<other>, policy::basic_indirect_vptr<other> {};",
}


def program(name, seed, flavours, other=None):
    rng = random.Random(seed)
    n = rng.randint(4, 7)
    parent = [None] + [rng.randrange(i) for i in range(1, n)]

    def ancestors(c):
        out = []
        while c is not None:
            out.append(c)
            c = parent[c]
        return out
    other = other or rng.choice(sorted(OTHERS))
    nthreads = rng.randint(3, 6)
    L = ["#include <yorel/yomm2/policies/vptr_map.hpp>", "#include <thread>", "#include <atomic>", OTHERS[other]]
    for c in range(n):
        L.append("struct C%d%s { %s int tag%d = %d; };" % (c, "" if parent[c] is None else " : C%d" % parent[c], "virtual ~C0() {}" if c == 0 else "", c, c))
    L.append("template<int K> struct Extra : C0 {};")
    L.append("static use_classes<%s> YOMM2_GENSYM;" % ", ".join("C%d" % c for c in range(n)))
    ne = rng.choice([1, 2, 3, 5, 8, 13, 21])
    L.append("static use_classes<%s, %s, other> YOMM2_GENSYM;" % (", ".join("C%d" % c for c in range(n)), ", ".join("Extra<%d>" % k for k in range(ne))))
    # methods of the default policy: one uni-method on references, one 2-method mixing virtual_ptr and reference
    L.append("struct k1; struct k2;")
    L.append("using M1 = method<k1, int(virtual_<C0&>)>;")
    L.append("using M2 = method<k2, int(virtual_ptr<C0>, virtual_<const C0&>)>;")
    L.append("using O1 = method<k1, int(virtual_<C0&>), other>;")
    d1 = sorted(rng.sample(range(n), rng.randint(1, n)))
    if 0 not in d1:
        d1 = [0] + d1  # a catch-all: every call has a definition (errors are exercised in tier A)
    for c in d1:
        L.append("static int f1_%d(C%d& o) { return 100 + %d + o.tag%d * 0; }" % (c, c, c, c))
        L.append("static M1::add_function<f1_%d> r1_%d;" % (c, c))
    od = sorted(rng.sample(d1, rng.randint(1, len(d1))))
    if 0 not in od:
        od = [0] + od
    for c in od:
        L.append("static O1::add_function<f1_%d> ro_%d;" % (c, c))  # the same functions in the other policy
    d2 = [(0, 0)]
    for _ in range(rng.randint(1, 5)):
        a = rng.randrange(n)
        d2.append((a, 0))  # definitions that select on the first argument only: never ambiguous
    d2 = sorted(set(d2))
    for a, b in d2:
        L.append("static int f2_%d(virtual_ptr<C%d> p, const C0&) { return 200 + %d + p->tag%d * 0; }" % (a, a, a, a))
        L.append("static M2::add_function<f2_%d> r2_%d;" % (a, a))

    def e1(c, defs):
        for a in ancestors(c):
            if a in defs:
                return 100 + a
    def e2(c):
        for a in ancestors(c):
            if (a, 0) in d2:
                return 200 + a
    main = ["int main() {", "    update();", "    update<other>();"]
    main.append("    " + " ".join("static C%d o%d;" % (c, c) for c in range(n)))
    main.append("    static C0* objs[%d] = {%s};" % (n, ", ".join("&o%d" % c for c in range(n))))
    main.append("    static const int exp1[%d] = {%s};" % (n, ", ".join(str(e1(c, d1)) for c in range(n))))
    main.append("    static const int exp2[%d] = {%s};" % (n, ", ".join(str(e2(c)) for c in range(n))))
    main.append("    static const int expo[%d] = {%s};" % (n, ", ".join(str(e1(c, od)) for c in range(n))))
    # single-threaded first: the expectations themselves
    main.append("    for (int c = 0; c < %d; ++c) {" % n)
    main.append('        CHECK(M1::fn(*objs[c]) == exp1[c], "C16:front-end:sequential-answer-wrong", "m1 class %d", c);')
    main.append('        CHECK(M2::fn(virtual_ptr<C0>(*objs[c]), *objs[(c + 1) %% %d]) == exp2[c], "C16:front-end:sequential-answer-wrong", "m2 class %%d", c);' % n)
    main.append('        CHECK(O1::fn(*objs[c]) == expo[c], "C16:front-end:sequential-answer-wrong", "other policy m1 class %d", c);')
    main.append("    }")
    main.append("    static std::vector<virtual_ptr<C0>> held; for (int c = 0; c < %d; ++c) held.push_back(virtual_ptr<C0>(*objs[c]));" % n)
    main.append("    static std::atomic<long> mismatches{0}, calls{0}, updates{0}; static std::atomic<bool> stop{false}; static std::atomic<int> started{0};")
    main.append("    std::vector<std::thread> ts;")
    main.append("    for (int t = 0; t < %d; ++t) ts.emplace_back([t] {" % nthreads)
    main.append("        started++; while (started.load() < %d) std::this_thread::yield();" % (nthreads + 1))
    main.append("        unsigned long long rnd = %dULL + t;" % (seed * 977 + 5))
    main.append("        for (int i = 0; i < %d; ++i) {" % 6000)
    main.append("            rnd = rnd * 6364136223846793005ULL + 1442695040888963407ULL; int c = (rnd >> 33) %% %d; int k = (rnd >> 50) %% 4;" % n)
    main.append("            int r, e;")
    main.append("            if (k == 0) { r = M1::fn(*objs[c]); e = exp1[c]; }")
    main.append("            else if (k == 1) { r = M2::fn(virtual_ptr<C0>(*objs[c]), *objs[(c + 1) %% %d]); e = exp2[c]; }" % n)
    main.append("            else if (k == 2) { virtual_ptr<C0> cp(held[c]); r = M2::fn(cp, *objs[0]); e = exp2[c]; }")
    main.append("            else { r = M2::fn(held[c], *objs[c]); e = exp2[c]; }")
    main.append("            if (r != e) mismatches++;")
    main.append("            calls++;")
    main.append("            if ((i & 63) == 0) std::this_thread::yield();")
    main.append("        }")
    main.append("    });")
    main.append("    std::thread updater([] {")
    main.append("        started++; while (started.load() < %d) std::this_thread::yield();" % (nthreads + 1))
    main.append("        while (!stop.load()) {")
    main.append("            update<other>(); updates++;")
    main.append("            for (int c = 0; c < %d; ++c) if (O1::fn(*objs[c]) != expo[c]) mismatches++;" % n)
    main.append("        }")
    main.append("    });")
    main.append("    for (auto& t : ts) t.join();")
    main.append("    stop = true; updater.join();")
    main.append('    CHECK(mismatches.load() == 0, "C16:front-end:concurrent-result-differs-from-sequential", "%ld of %ld calls gave another answer than single-threaded (%ld concurrent updates of the other policy)", mismatches.load(), calls.load(), updates.load());')
    main.append('    CHECK(updates.load() > 0, "C16:front-end:harness-no-concurrent-update", "the updater never ran");')
    main.append("    g_checks += calls.load();")
    combo = "other=%s/classes=%d/extra=%d/threads=%d" % (other, n, ne, nthreads)
    main.append('    printf("VFB-COMBO %s\\n");' % combo)
    src = PRELUDE + "\n".join(L) + "\n\n" + "\n".join(main) + EPILOGUE + "}\n"
    return Program(name, src, combos=[combo], flavours=flavours, timeout=900)


def programs(tier, seed):
    out = []
    kinds = sorted(OTHERS)
    n = 5 if tier == "quick" else 30
    for k in range(n):
        flav = ["gcc-tsan"] if k % 2 == 0 else ["gcc-tsan-ndebug"]
        if tier != "quick" and k % 5 == 4:
            flav = ["clang-asan"]
        out.append(program("c16fe-s%d-%d" % (seed, k), seed * 131 + k, flav, other=kinds[k % len(kinds)]))
    return out

"""Driver shared by every check: runs harness jobs in parallel, classifies what
they observed, matches violations against known_findings.txt, writes evidence.

Exit codes: 0 held on everything explored (KNOWN-FINDING lines allowed),
1 violation (VIOLATION line printed), 2 harness failure / inconclusive run.
"""
import json
import os
import re
import signal
import subprocess
import sys
import time
from concurrent.futures import ThreadPoolExecutor

import vfbuild

VERIF = vfbuild.VERIF
WITNESS = os.path.join(VERIF, "witness")
EVIDENCE = os.path.join(VERIF, "evidence")
FINDINGS = os.path.join(VERIF, "known_findings.txt")

SAN_ENV = {
    "ASAN_OPTIONS": "abort_on_error=1:detect_leaks=0:handle_abort=0:allocator_may_return_null=1:detect_stack_use_after_return=0",
    "UBSAN_OPTIONS": "print_stacktrace=1:halt_on_error=1:abort_on_error=1",
    "TSAN_OPTIONS": "halt_on_error=0:exitcode=0:second_deadlock_stack=1:report_signal_unsafe=0",
}


def base_seed():
    try:
        return int(os.environ.get("VERIF_SEED", "20261004"))
    except ValueError:
        return 20261004


def load_findings():
    known = {}
    if os.path.exists(FINDINGS):
        for line in open(FINDINGS):
            line = line.strip()
            m = re.match(r"known:\s+property=(\S+)\s+key=(\S+)\s*(.*)", line)
            if m:
                known[(m.group(1), m.group(2))] = m.group(3)
    return known


class Job:
    def __init__(self, flavour, prop, seed, cases, extra=None, policy=None, timeout=1800, tier="quick", only_case=None,
                 trace=False):
        self.flavour = flavour
        self.prop = prop
        self.seed = seed
        self.cases = cases
        self.extra = extra or []
        self.policy = policy
        self.timeout = timeout
        self.tier = tier
        self.only_case = only_case
        self.trace = trace  # YOMM2_TRACE=1: the documented trace of the debug policies is on
        self.summary = None
        self.violations = []  # (key, witness)
        self.failure = None   # harness failure text
        self.timed_out = False
        self.wall = 0.0

    def argv(self, binary, outdir):
        a = [binary, "--prop", self.prop, "--seed", str(self.seed), "--cases", str(self.cases), "--out", outdir,
             "--tier", self.tier]
        if self.policy:
            a += ["--policy", self.policy]
        if self.only_case is not None:
            a += ["--only-case", str(self.only_case)]
        for e in self.extra:
            a += ["--x", e]
        return a


def run_job(job, binary, outdir):
    env = dict(os.environ)
    env.update(SAN_ENV)
    env.pop("YOMM2_TRACE", None)
    if job.trace:
        env["YOMM2_TRACE"] = "1"
    env["LC_ALL"] = "C"
    if job.flavour == "tsan":
        env["TSAN_OPTIONS"] += ":log_path=%s/tsan-%s-%d" % (outdir, job.prop, job.seed)
    t0 = time.time()
    argv = job.argv(binary, outdir)
    errpath = os.path.join(outdir, "stderr-%s-%s-%d.txt" % (job.prop, job.flavour, job.seed))
    # (the trace goes to stderr and is huge: it is discarded; crashes are still reported on stdout)
    with open("/dev/null" if job.trace else errpath, "w") as errf:
        try:
            p = subprocess.run(argv, stdout=subprocess.PIPE, stderr=errf, env=env, timeout=job.timeout, text=True,
                               errors="replace")
            out, rc = p.stdout, p.returncode
        except subprocess.TimeoutExpired as e:
            out = e.stdout if isinstance(e.stdout, str) else (e.stdout or b"").decode(errors="replace")
            rc = None
            job.timed_out = True
    job.wall = time.time() - t0
    for line in out.splitlines():
        if line.startswith("VFSUMMARY "):
            try:
                job.summary = json.loads(line[len("VFSUMMARY "):])
            except ValueError as e:
                job.failure = "unparsable summary: %s" % e
        elif line.startswith("VFVIOLATION ") or line.startswith("VFCRASH "):
            m = re.match(r"VF\w+ key=(\S+) witness=(\S+)", line)
            if m:
                job.violations.append((m.group(1), m.group(2)))
    err = ""
    try:
        err = open(errpath, errors="replace").read()
    except OSError:
        pass
    san = re.search(r"(ERROR: AddressSanitizer: [\w-]+|runtime error: [^\n]{0,120}|WARNING: ThreadSanitizer: [\w -]+|Assertion [^\n]{0,160} failed|assertion [^\n]{0,160} failed)", err)
    if rc is None:
        return job
    if rc == 3 or (rc is not None and rc < 0):
        # crash: attach the sanitizer / assertion headline to the key and stderr to the witness
        if not any(k for k, _ in job.violations if ":crash:" in k):
            job.violations.append(("%s:crash:signal%d:unknown-stage:-" % (job.prop, -rc if rc < 0 else 0), errpath))
        if san:
            head = re.sub(r"[^A-Za-z0-9_.-]+", "_", san.group(1))[:70]
            job.violations = [((k + ":" + head) if ":crash:" in k else k, w) for k, w in job.violations]
        for k, w in job.violations:
            if ":crash:" in k and w != errpath and os.path.exists(w):
                try:
                    with open(w, "a") as f:
                        f.write(json.dumps({"stderr_tail": err[-6000:]}) + "\n")
                except OSError:
                    pass
    elif rc == 2:
        job.failure = "harness exit 2: " + err[-400:]
    elif rc not in (0, 1):
        job.failure = "harness exit %s: %s" % (rc, err[-400:])
    if rc in (0, 1) and job.summary is None:
        if san:
            # a sanitizer stopped the process without going through the crash handler
            head = re.sub(r"[^A-Za-z0-9_.-]+", "_", san.group(1))[:70]
            job.violations.append(("%s:crash:sanitizer:%s" % (job.prop, head), errpath))
        else:
            job.failure = "no summary line"
    if os.path.exists(errpath) and not job.violations and not job.failure:
        # TSan (halt_on_error=0) reports go to log_path; keep stderr only on trouble
        try:
            os.unlink(errpath)
        except OSError:
            pass
    return job


def tsan_reports(outdir, prop, seed):
    """de-duplicated ThreadSanitizer report headlines from log_path files"""
    reports = []
    for fn in os.listdir(outdir):
        if fn.startswith("tsan-%s-%d" % (prop, seed)):
            txt = open(os.path.join(outdir, fn), errors="replace").read()
            for block in txt.split("==================")[1:]:
                m = re.search(r"WARNING: ThreadSanitizer: ([\w -]+)", block)
                if not m:
                    continue
                frames = re.findall(r"#\d+ (\S+)", block)
                yomm = [f for f in frames if "yomm2" in f or "yorel" in f]
                sig = (m.group(1).strip().replace(" ", "-"), yomm[0] if yomm else (frames[0] if frames else "?"))
                reports.append((sig, os.path.join(outdir, fn)))
    return reports


class Check:
    """one property check: jobs + evidence"""

    def __init__(self, prop, tier, rule, level="exploration", assumptions=None, min_evaluations=1, min_distinct=2):
        self.prop = prop
        self.tier = tier
        self.rule = rule
        self.level = level
        self.assumptions = assumptions or []
        self.jobs = []
        self.min_evaluations = min_evaluations
        self.min_distinct = min_distinct
        self.extra_evidence = {}
        self.extra_violations = []   # (key, witness) from non-harness monitors (tier B)
        self.extra_failures = []
        self.extra_evaluations = 0
        self.extra_distinct = set()
        self.extra_samples = []
        self.extra_hist = {}
        self.extra_inconclusive = {}
        self.t0 = time.time()
        self.outdir = os.path.join(WITNESS, prop)
        # witnesses of the previous run of this check are dropped (a stale sanitizer log
        # must never be attributed to this run)
        if os.path.isdir(self.outdir):
            for fn in os.listdir(self.outdir):
                fp = os.path.join(self.outdir, fn)
                if os.path.isfile(fp):
                    try:
                        os.unlink(fp)
                    except OSError:
                        pass
        os.makedirs(self.outdir, exist_ok=True)
        os.makedirs(EVIDENCE, exist_ok=True)

    def add(self, job):
        job.tier = self.tier
        self.jobs.append(job)

    def run_jobs(self, max_parallel=16):
        flavours = sorted(set(j.flavour for j in self.jobs))
        binaries = {}
        for f in flavours:
            b = vfbuild.build(f)
            if b is None:
                print("HARNESS-FAILURE property=%s build of flavour %s failed" % (self.prop, f))
                return False
            binaries[f] = b
        with ThreadPoolExecutor(max_workers=max_parallel) as ex:
            list(ex.map(lambda j: run_job(j, binaries[j.flavour], self.outdir), self.jobs))
        # a watchdog expiry is inconclusive: re-run once
        for j in self.jobs:
            if j.timed_out:
                j.timed_out = False
                run_job(j, binaries[j.flavour], self.outdir)
        return True

    def finish(self):
        known = load_findings()
        evaluations = self.extra_evaluations
        events = 0
        distinct = set(self.extra_distinct)
        hist = dict(self.extra_hist)
        inconclusive = dict(self.extra_inconclusive)
        samples = list(self.extra_samples)
        violations = list(self.extra_violations)
        failures = list(self.extra_failures)
        seeds = []
        flavours = {}
        for j in self.jobs:
            seeds.append(j.seed)
            flavours[j.flavour] = flavours.get(j.flavour, 0) + 1
            if j.timed_out:
                failures.append("watchdog expired twice (%s seed %d): inconclusive" % (j.flavour, j.seed))
            if j.failure:
                failures.append("%s seed %d: %s" % (j.flavour, j.seed, j.failure))
            violations += j.violations
            if j.flavour == "tsan":
                for sig, path in tsan_reports(self.outdir, j.prop, j.seed):
                    violations.append(("%s:tsan:%s:%s" % (self.prop, sig[0], re.sub(r"[^A-Za-z0-9_:<>~.-]+", "_", sig[1])[:80]), path))
            s = j.summary
            if s:
                evaluations += s.get("evaluations", 0)
                events += s.get("events", 0)
                distinct.update(s.get("distinct", []))
                for k, v in s.get("hist", {}).items():
                    hist[k] = hist.get(k, 0) + v
                for k, v in s.get("inconclusive", {}).items():
                    inconclusive[k] = inconclusive.get(k, 0) + v
                for x in s.get("samples", []):
                    if len(samples) < 4:
                        samples.append(x)
        # classify violations
        seen = set()
        unlisted = []
        listed = []
        for key, wit in violations:
            if (self.prop, key) in known:
                if key not in seen:
                    listed.append((key, known[(self.prop, key)]))
            else:
                unlisted.append((key, wit))
            seen.add(key)
        for key, text in listed:
            print("KNOWN-FINDING: property=%s %s (%s)" % (self.prop, key, text))
        reported = set()
        for key, wit in unlisted:
            if key in reported:
                continue
            reported.add(key)
            print("VIOLATION property=%s replay=%s key=%s" % (self.prop, wit, key))
        wall = time.time() - self.t0
        cov = {
            "evaluations": int(evaluations),
            "distinct_nontrivial": len(distinct),
            "rule": self.rule,
            "samples": samples if samples else ["(no sample recorded)"],
            "definition_events_observed": int(events),
            "histogram": hist,
            "inconclusive_cases": inconclusive,
            "flavours": flavours,
            "seeds": seeds[:64],
            "jobs": len(self.jobs),
            "jobs_with_trace_enabled": sum(1 for j in self.jobs if j.trace),
            "repo_include_sha": vfbuild.include_key(),
            "known_findings_reported": [k for k, _ in listed],
            "violation_keys": sorted(reported),
            "harness_failures": failures[:10],
        }
        cov.update(self.extra_evidence)
        ev = {
            "property_id": self.prop,
            "tier": self.tier,
            "seed": base_seed(),
            "level": self.level,
            "coverage": cov,
            "assumptions": self.assumptions,
            "wall_s": round(wall, 2),
            "violations": len(reported),
        }
        # evidence/<id>.json describes runs against /repo itself; a run against another tree
        # (VERIF_REPO=<scratch copy>, used to try seeded changes) records next to its witnesses
        evpath = os.path.join(EVIDENCE, self.prop + ".json")
        if os.path.realpath(vfbuild.repo_dir()) != "/repo":
            evpath = os.path.join(self.outdir, "evidence-%s-other-tree.json" % self.prop)
        with open(evpath, "w") as f:
            json.dump(ev, f, indent=1, sort_keys=True)
            f.write("\n")
        if reported:
            print("RESULT property=%s violated (%d distinct keys) evaluations=%d" % (self.prop, len(reported), evaluations))
            return 1
        if failures:
            for x in failures[:5]:
                print("HARNESS-FAILURE property=%s %s" % (self.prop, x))
            return 2
        if evaluations < self.min_evaluations or len(distinct) < self.min_distinct:
            print("HARNESS-FAILURE property=%s observed too little: evaluations=%d distinct_nontrivial=%d (inconclusive)" %
                  (self.prop, evaluations, len(distinct)))
            return 2
        print("RESULT property=%s held on %d evaluations, %d distinct non-trivial cases, %d known findings, %.0f s" %
              (self.prop, evaluations, len(distinct), len(listed), wall))
        return 0


def seeds(n, salt):
    b = base_seed()
    return [(b * 1000003 + salt * 7919 + i * 104729) % (2 ** 31 - 1) + 1 for i in range(n)]

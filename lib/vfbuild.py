"""Build cache for the harness flavours.

Every check rebuilds what it needs from $VERIF_REPO (default /repo) *working
tree*: the cache key is the SHA-256 of every file under include/, of the
harness sources and of the flags, so an edited tree always rebuilds and an
unchanged one never does.
"""
import hashlib
import os
import shutil
import subprocess
import sys
import time
from concurrent.futures import ThreadPoolExecutor

VERIF = os.path.dirname(os.path.dirname(os.path.abspath(__file__)))
HARNESS = os.path.join(VERIF, "harness")
BUILD = os.path.join(VERIF, "build")
GUARD = "JLL63_YOMM2_VERIF"

POLICIES = ["P_dbg", "P_rel", "P_thr", "P_vec", "P_map", "P_ind", "P_indc",
            "P_proj", "P_projm", "P_projv", "P_def", "P_b", "P_c", "P_m1", "P_m2"]

FLAVOURS = {
    # the configuration users (and the baseline suite) run: optimised, BOOST_ASSERT off
    "rel": dict(cxx="g++", flags="-std=c++17 -O2 -DNDEBUG -g0 -pthread"),
    # assertions on (BOOST_ASSERT, libstdc++ assertions), ASan + UBSan, reports fatal
    "asan": dict(cxx="g++", flags="-std=c++17 -O1 -g -fno-omit-frame-pointer -fsanitize=address,undefined "
                                  "-fno-sanitize-recover=all -D_GLIBCXX_ASSERTIONS -pthread"),
    "tsan": dict(cxx="g++", flags="-std=c++17 -O1 -g -fsanitize=thread -pthread"),
    # second compiler's sanitizers (thorough)
    "clang-asan": dict(cxx="clang++-14", flags="-std=c++17 -O1 -g -fno-omit-frame-pointer -fsanitize=address,undefined "
                                               "-fno-sanitize=object-size -fno-sanitize-recover=all -pthread"),
}


def repo_dir():
    return os.environ.get("VERIF_REPO", "/repo")


def _hash_tree(h, root, exts=None):
    for dirpath, dirnames, filenames in os.walk(root):
        dirnames.sort()
        for fn in sorted(filenames):
            if exts and not fn.endswith(exts):
                continue
            p = os.path.join(dirpath, fn)
            h.update(os.path.relpath(p, root).encode())
            with open(p, "rb") as f:
                h.update(f.read())


def tree_key(flavour, extra=""):
    h = hashlib.sha256()
    _hash_tree(h, os.path.join(repo_dir(), "include"))
    _hash_tree(h, HARNESS, (".cpp", ".hpp"))
    h.update(FLAVOURS[flavour]["cxx"].encode())
    h.update(FLAVOURS[flavour]["flags"].encode())
    h.update(extra.encode())
    return h.hexdigest()[:16]


def include_key():
    h = hashlib.sha256()
    _hash_tree(h, os.path.join(repo_dir(), "include"))
    return h.hexdigest()[:16]


def harness_sources():
    srcs = []
    for fn in sorted(os.listdir(HARNESS)):
        if fn.endswith(".cpp") and fn != "pol.cpp":
            srcs.append(fn)
    return srcs


def _run(cmd, log):
    p = subprocess.run(cmd, shell=True, stdout=subprocess.PIPE, stderr=subprocess.STDOUT, text=True)
    if p.returncode != 0:
        with open(log, "a") as f:
            f.write("$ " + cmd + "\n" + p.stdout[-6000:] + "\n")
    return p.returncode


def prune(flavour, keep):
    """keep the `keep` most recent build dirs of a flavour (disk is limited)"""
    if not os.path.isdir(BUILD):
        return
    dirs = [d for d in os.listdir(BUILD) if d.startswith(flavour + "-")]
    dirs.sort(key=lambda d: os.path.getmtime(os.path.join(BUILD, d)), reverse=True)
    for d in dirs[keep:]:
        shutil.rmtree(os.path.join(BUILD, d), ignore_errors=True)


def build(flavour, jobs=16, quiet=False):
    """returns the path of the harness binary for `flavour`, building it if needed"""
    key = tree_key(flavour)
    out = os.path.join(BUILD, "%s-%s" % (flavour, key))
    binary = os.path.join(out, "harness")
    if os.path.exists(binary):
        os.utime(out, None)
        return binary
    os.makedirs(out, exist_ok=True)
    lock = os.path.join(out, ".lock")
    # another check may be building the same flavour right now
    while True:
        try:
            fd = os.open(lock, os.O_CREAT | os.O_EXCL | os.O_WRONLY)
            os.close(fd)
            break
        except FileExistsError:
            if os.path.exists(binary):
                return binary
            try:
                if time.time() - os.path.getmtime(lock) > 1800:
                    os.unlink(lock)
            except OSError:
                pass
            time.sleep(1)
    try:
        if os.path.exists(binary):
            return binary
        t0 = time.time()
        fl = FLAVOURS[flavour]
        common = "%s %s -I%s/include -I%s -D%s" % (fl["cxx"], fl["flags"], repo_dir(), HARNESS, GUARD)
        log = os.path.join(out, "build.log")
        cmds = []
        objs = []
        for p in POLICIES:
            o = os.path.join(out, "pol_%s.o" % p)
            objs.append(o)
            cmds.append("%s -DVF_POLICY=%s -c %s/pol.cpp -o %s" % (common, p, HARNESS, o))
        for s in harness_sources():
            o = os.path.join(out, s.replace(".cpp", ".o"))
            objs.append(o)
            extra = ""
            if s == "prop_list.cpp":
                extra = " -fno-lifetime-dse" if fl["cxx"] == "g++" else ""
            cmds.append("%s%s -c %s/%s -o %s" % (common, extra, HARNESS, s, o))
        # on a busy machine fewer compilers at once (each needs 1-1.5 GB)
        try:
            load = os.getloadavg()[0]
        except OSError:
            load = 0
        jobs = max(4, min(jobs, int(20 - load)))
        with ThreadPoolExecutor(max_workers=jobs) as ex:
            rcs = list(ex.map(lambda c: _run(c, log), cmds))
        if any(rcs):
            # a compiler killed for lack of memory is not a verdict on the tree: retry the
            # failed translation units one at a time
            retry = [c for c, rc in zip(cmds, rcs) if rc]
            rcs = [_run(c, log) for c in retry]
        if any(rcs):
            sys.stderr.write("harness build failed (%s); see %s\n" % (flavour, log))
            try:
                sys.stderr.write(open(log).read()[-4000:])
            except OSError:
                pass
            return None
        rc = _run("%s %s -o %s.tmp %s -ldl" % (fl["cxx"], fl["flags"], binary, " ".join(objs)), log)
        if rc != 0:
            sys.stderr.write("harness link failed (%s); see %s\n" % (flavour, log))
            sys.stderr.write(open(log).read()[-4000:])
            return None
        for o in objs:
            try:
                os.unlink(o)
            except OSError:
                pass
        os.rename(binary + ".tmp", binary)
        if not quiet:
            sys.stderr.write("built harness flavour %s in %.0f s\n" % (flavour, time.time() - t0))
        prune(flavour, 3)
        return binary
    finally:
        try:
            os.unlink(lock)
        except OSError:
            pass


if __name__ == "__main__":
    fls = sys.argv[1:] or ["rel", "asan"]
    ok = True
    for f in fls:
        b = build(f)
        print(f, b)
        ok = ok and b is not None
    sys.exit(0 if ok else 2)

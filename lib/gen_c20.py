"""C20 programs: product / apply_product enumerate the Cartesian product in
order; use_definitions registers exactly the combinations whose instantiation is
not marked not_defined - also beyond the 512-element split of aggregate."""
import random

from tierb import PRELUDE, EPILOGUE, Program


def make_program(name, seed, nA, nB, nC, mode, nested_method, flavours, marking="conditional"):
    """one method with virtual parameters (A, B[, C]); classes A_i, B_j derive from Root"""
    rng = random.Random(seed)
    sizes = [nA, nB] + ([nC] if nC else [])
    arity = len(sizes)
    total = 1
    for s in sizes:
        total *= s
    # which combinations are defined
    def defined(idx):
        if mode == "all":
            return True
        if mode == "none":
            return False
        if mode == "diagonal":
            return len(set(idx)) == 1
        if mode == "single":  # exactly one combination is defined
            return list(idx) == [s - 1 for s in sizes]
        if mode == "two":
            return list(idx) == [s - 1 for s in sizes] or list(idx) == [0] * len(sizes)
        if mode == "row":
            return idx[0] != 1 % sizes[0]
        if mode == "random":
            return random.Random(seed * 7919 + sum(x * 31 ** k for k, x in enumerate(idx))).random() < 0.5
        if mode == "most":
            return random.Random(seed * 7919 + sum(x * 31 ** k for k, x in enumerate(idx))).random() < 0.97
        return True
    combos = []
    def rec(prefix):
        if len(prefix) == arity:
            combos.append(tuple(prefix))
            return
        for x in range(sizes[len(prefix)]):
            rec(prefix + [x])
    rec([])
    table = [1 if defined(c) else 0 for c in combos]
    ndefined = sum(table)
    L = ["struct Root { virtual ~Root() {} };"]
    letters = "ABC"
    for d in range(arity):
        for i in range(sizes[d]):
            L.append("struct %s%d : Root { static constexpr int dim = %d; static constexpr int index = %d; };" % (letters[d], i, d, i))
    allcls = ["%s%d" % (letters[d], i) for d in range(arity) for i in range(sizes[d])]
    # registration in chunks (use_classes instantiates a tuple per class)
    L.append("use_classes<Root> YOMM2_GENSYM;")
    for k in range(0, len(allcls), 20):
        L.append("use_classes<Root, %s> YOMM2_GENSYM;" % ", ".join(allcls[k:k + 20]))
    params = ", ".join(["virtual_<Root&>"] * arity)
    L.append("struct KEY;")
    L.append("using M = method<KEY, int(%s)>;" % params)
    L.append("static int catch_all(%s) { return -1; }" % ", ".join(["Root&"] * arity))
    L.append("YOMM2_STATIC(M::add_function<catch_all>);")
    L.append("constexpr unsigned char DEFINED[%d] = {%s};" % (total, ",".join(map(str, table))))
    strides = []
    acc = 1
    for s in reversed(sizes):
        strides.insert(0, acc)
        acc *= s
    tparams = ", ".join("typename T%d" % d for d in range(arity))
    targs = ", ".join("T%d" % d for d in range(arity))
    lin = " + ".join("T%d::index * %d" % (d, strides[d]) for d in range(arity))
    fnparams = ", ".join("T%d&" % d for d in range(arity))
    L.append("static int g_instantiated_fn_calls = 0;")
    L.append("template<typename Method, %s> struct impl { %s static int fn(%s) { ++g_instantiated_fn_calls; return %s; } };" %
             (tparams, "using method = Method;" if nested_method else "", fnparams, lin))
    if marking == "conditional":
        L.append("template<typename Method, %s> struct definition : std::conditional_t<DEFINED[%s] != 0, impl<Method, %s>, not_defined> {};" % (tparams, lin, targs))
    elif marking == "private-base":
        # 'derives from not_defined' does not say publicly
        L.append("struct empty_base {};")
        L.append("template<typename Method, %s> struct definition : private std::conditional_t<DEFINED[%s] != 0, empty_base, not_defined>, impl<Method, %s> {};" % (tparams, lin, targs))
    else:
        # two mix-ins, each of which may derive from not_defined: a rejected combination can have
        # not_defined twice among its bases
        L.append("struct ok1 {}; struct ok2 {}; struct rej1 : not_defined {}; struct rej2 : not_defined {};")
        L.append("template<typename Method, %s> struct definition : std::conditional_t<DEFINED[%s] != 0, ok1, rej1>, std::conditional_t<DEFINED[%s] != 0 || (T0::index %% 2 == 0), ok2, rej2>, impl<Method, %s> {};" % (tparams, lin, lin, targs))
    lists = ", ".join("types<%s>" % ", ".join("%s%d" % (letters[d], i) for i in range(sizes[d])) for d in range(arity))
    L.append("using P = product<types<M>, %s>;" % lists)
    L.append("static_assert(boost::mp11::mp_size<P>::value == %d, \"product size\");" % total)
    # order of the product: spot checks
    checks = [0, total - 1] + [rng.randrange(total) for _ in range(6)]
    for k in sorted(set(checks)):
        c = combos[k]
        L.append("static_assert(std::is_same_v<boost::mp11::mp_at_c<P, %d>, types<M, %s>>, \"product order at %d\");" %
                 (k, ", ".join("%s%d" % (letters[d], c[d]) for d in range(arity)), k))
    L.append("use_definitions<definition, P> YOMM2_GENSYM;")
    main = ["int main() {", "    update();"]
    main.append("    // the definitions actually registered in the method's catalog")
    main.append("    std::map<type_id, std::pair<int,int>> cls;")
    for d in range(arity):
        for i in range(sizes[d]):
            main.append("    cls[default_policy::static_type<%s%d>()] = {%d, %d};" % (letters[d], i, d, i))
    main.append("    type_id root = default_policy::static_type<Root>();")
    main.append("    std::map<long, int> seen; int catchalls = 0, foreign = 0;")
    main.append("    for (auto& def : M::fn.specs) {")
    main.append("        long lin = 0; bool isroot = true, ok = true; int k = 0;")
    main.append("        static const long strides[] = {%s};" % ", ".join(map(str, strides)))
    main.append("        for (auto p = def.vp_begin; p != def.vp_end; ++p, ++k) {")
    main.append("            if (*p == root) continue;")
    main.append("            isroot = false;")
    main.append("            auto it = cls.find(*p);")
    main.append("            if (it == cls.end() || it->second.first != k) { ok = false; break; }")
    main.append("            lin += it->second.second * strides[k];")
    main.append("        }")
    main.append("        if (isroot) ++catchalls; else if (!ok) ++foreign; else ++seen[lin];")
    main.append("    }")
    main.append('    CHECK(catchalls == 1 && foreign == 0, "C20:unexpected-definition-registered", "catch-alls %d foreign %d", catchalls, foreign);')
    main.append("    long missing = 0, extra = 0, twice = 0, first_bad = -1;")
    main.append("    for (long k = 0; k < %d; ++k) {" % total)
    main.append("        int n = seen.count(k) ? seen[k] : 0;")
    main.append("        if (DEFINED[k] && n == 0) { ++missing; if (first_bad < 0) first_bad = k; }")
    main.append("        if (!DEFINED[k] && n > 0) { ++extra; if (first_bad < 0) first_bad = k; }")
    main.append("        if (n > 1) { ++twice; if (first_bad < 0) first_bad = k; }")
    main.append("        ++g_checks;")
    main.append("    }")
    main.append('    CHECK(missing == 0, "C20:defined-combination-not-registered", "%ld of %d defined combinations missing, first at product index %ld", missing, ' + str(ndefined) + ', first_bad);')
    main.append('    CHECK(extra == 0, "C20:not_defined-combination-registered", "%ld combinations marked not_defined were registered, first at product index %ld", extra, first_bad);')
    main.append('    CHECK(twice == 0, "C20:combination-registered-twice", "%ld combinations registered more than once", twice);')
    main.append('    CHECK((long)M::fn.specs.size() == %d + 1, "C20:wrong-number-of-definitions", "%%ld definitions in the catalog, expected %d", (long)M::fn.specs.size());' % (ndefined, ndefined + 1))
    # dispatch through them
    for d in range(arity):
        main.append("    std::vector<Root*> objs%d;" % d)
        for i in range(sizes[d]):
            main.append("    static %s%d o_%d_%d; objs%d.push_back(&o_%d_%d);" % (letters[d], i, d, i, d, d, i))
    loops = ""
    for d in range(arity):
        loops += "    " * (d + 1) + "for (size_t i%d = 0; i%d < objs%d.size(); ++i%d)\n" % (d, d, d, d)
    linexpr = " + ".join("(long)i%d * %d" % (d, strides[d]) for d in range(arity))
    callargs = ", ".join("*objs%d[i%d]" % (d, d) for d in range(arity))
    main.append("    long wrong = 0, wfirst = -1;")
    main.append(loops + "    " * (arity + 1) + "{ long k = %s; int r = M::fn(%s); ++g_checks; int want = DEFINED[k] ? (int)k : -1; if (r != want) { ++wrong; if (wfirst < 0) wfirst = k; } }" % (linexpr, callargs))
    main.append('    CHECK(wrong == 0, "C20:dispatch-through-registered-definitions-wrong", "%ld wrong results, first at product index %ld", wrong, wfirst);')
    combo = "sizes=%s/defined=%d-of-%d/mode=%s/%s/marking=%s" % ("x".join(map(str, sizes)), ndefined, total, mode, "nested-method" if nested_method else "method-first-arg", marking)
    main.append('    printf("VFB-COMBO %s\\n");' % combo)
    src = PRELUDE + "\n".join(L) + "\n\n" + "\n".join(main) + EPILOGUE + "}\n"
    return Program(name, src, combos=[combo], flavours=flavours, timeout=900)


def small_extras(name, flavours):
    """apply_product / product order on small lists, checked at compile time and by name dump"""
    src = PRELUDE + r'''
struct a {}; struct b {}; struct c {}; struct x {}; struct y {};
template<typename...> struct t1 {}; template<typename...> struct t2 {};
static_assert(std::is_same_v<product<types<a, b>, types<x, y>>, types<types<a, x>, types<a, y>, types<b, x>, types<b, y>>>);
static_assert(std::is_same_v<product<types<a>, types<x, y>, types<a, b, c>>,
    types<types<a, x, a>, types<a, x, b>, types<a, x, c>, types<a, y, a>, types<a, y, b>, types<a, y, c>>>);
static_assert(std::is_same_v<product<types<a, b, c>>, types<types<a>, types<b>, types<c>>>);
static_assert(std::is_same_v<apply_product<templates<t1, t2>, types<a, b>, types<x>>,
    types<t1<a, x>, t1<b, x>, t2<a, x>, t2<b, x>>>);
static_assert(boost::mp11::mp_size<product<types<a, b, c>, types<>, types<x>>>::value == 0);
int main() {
    CHECK(true, "C20:product-order", "compile-time checks passed");
    printf("VFB-COMBO product-and-apply_product-order-small\n");
''' + EPILOGUE + "}\n"
    return Program(name, src, combos=["product-and-apply_product-order-small"], flavours=flavours)


def product_shapes(name, seed, flavours):
    """product<> / apply_product over lists of every shape - one to four lists of different
    lengths, one-element lists, repeated types, and elements that are themselves type lists
    (types<...>, types<>, template instantiations) - compared at compile time with the product
    computed by the generator; plus use_definitions over a product whose second list holds a
    composite element (a definition template that takes a list of tags as one argument)"""
    rng = random.Random(seed)
    plain = ["e%d" % i for i in range(8)]
    decl = ["struct %s {};" % x for x in plain] + ["template<typename...> struct tp {};", "template<typename...> struct tq {};"]

    def element():
        k = rng.randrange(7)
        if k <= 2:
            return rng.choice(plain)
        if k == 3:
            return "types<%s>" % ", ".join(rng.choice(plain) for _ in range(rng.randint(0, 3)))
        if k == 4:
            return "tp<%s>" % ", ".join(rng.choice(plain) for _ in range(rng.randint(0, 2)))
        if k == 5:
            return "types<types<%s>, %s>" % (rng.choice(plain), rng.choice(plain))
        return "types<>"
    asserts = []
    for _ in range(10):
        nl = rng.randint(1, 4)
        lists = [[element() for _ in range(rng.choice([1, 1, 2, 3, 4]))] for _ in range(nl)]
        combos = [[]]
        for l in lists:
            combos = [c + [x] for c in combos for x in l]
        expected = "types<%s>" % ", ".join("types<%s>" % ", ".join(c) for c in combos)
        actual = "product<%s>" % ", ".join("types<%s>" % ", ".join(l) for l in lists)
        asserts.append("static_assert(std::is_same_v<%s,\n    %s>, \"product of %d lists\");" % (actual, expected, nl))
        if rng.random() < 0.5:
            tl = rng.sample(["tp", "tq"], rng.randint(1, 2))
            exp2 = "types<%s>" % ", ".join("%s<%s>" % (t, ", ".join(c)) for t in tl for c in combos)
            act2 = "apply_product<templates<%s>, %s>" % (", ".join(tl), ", ".join("types<%s>" % ", ".join(l) for l in lists))
            asserts.append("static_assert(std::is_same_v<%s,\n    %s>, \"apply_product\");" % (act2, exp2))
    # use_definitions with a composite element in the second (and third) list
    ncls = rng.randint(2, 5)
    L = decl + asserts
    L.append("struct Root { virtual ~Root() {} };")
    for i in range(ncls):
        L.append("struct K%d : Root { static constexpr int index = %d; };" % (i, i))
    L.append("use_classes<Root, %s> YOMM2_GENSYM;" % ", ".join("K%d" % i for i in range(ncls)))
    L.append("struct KEY; using M = method<KEY, int(virtual_<Root&>)>;")
    L.append("struct bold {}; struct italic {}; struct wide {};")
    L.append("template<typename...> struct definition : not_defined {};")
    third = rng.random() < 0.5
    defined = [i for i in range(ncls) if rng.random() < 0.7] or [0]
    L.append("constexpr bool WANTED[%d] = {%s};" % (ncls, ", ".join("true" if i in defined else "false" for i in range(ncls))))
    L.append("struct impl_base {};")
    if third:
        L.append("template<typename T, typename... Tags, typename Last> struct definition<M, T, types<Tags...>, Last> : std::conditional_t<WANTED[T::index], impl_base, not_defined> { static int fn(T&) { return 10 * T::index + (int)sizeof...(Tags); } };")
        L.append("use_definitions<definition, product<types<M>, types<%s>, types<types<bold, italic>>, types<types<wide>>>> YOMM2_GENSYM;" % ", ".join("K%d" % i for i in range(ncls)))
    else:
        L.append("template<typename T, typename... Tags> struct definition<M, T, types<Tags...>> : std::conditional_t<WANTED[T::index], impl_base, not_defined> { static int fn(T&) { return 10 * T::index + (int)sizeof...(Tags); } };")
        L.append("use_definitions<definition, product<types<M>, types<%s>, types<types<bold, italic>>>> YOMM2_GENSYM;" % ", ".join("K%d" % i for i in range(ncls)))
    main = ["int main() {", "    update();"]
    main.append('    CHECK((long)M::fn.specs.size() == %d, "C20:composite-element:wrong-number-of-definitions", "%%ld definitions registered, %d combinations are defined", (long)M::fn.specs.size());' % (len(defined), len(defined)))
    for i in defined:
        main.append('    { K%d o; int r = -1; try { r = M::fn(o); } catch (...) {} CHECK(r == %d, "C20:composite-element:defined-combination-not-registered", "class K%d: result %%d", r); }' % (i, 10 * i + 2, i))
    main.append('    CHECK(true, "C20:product-order", "%d compile-time comparisons passed");' % len(asserts))
    combo = "product-shapes/composite-elements/classes=%d/third-list=%d" % (ncls, third)
    main.append('    printf("VFB-COMBO %s\\n");' % combo)
    src = PRELUDE + "\n".join(L) + "\n\n" + "\n".join(main) + EPILOGUE + "}\n"
    return Program(name, src, combos=[combo], flavours=flavours)


def programs(tier, seed):
    rng = random.Random(seed)
    out = [small_extras("c20-s%d-order" % seed, ["clang-asan"])]
    for k in range(2 if tier == "quick" else 10):
        out.append(product_shapes("c20-s%d-shapes%d" % (seed, k), seed * 53 + k, ["clang-asan"] if k % 2 == 0 else ["gcc-dbg"]))
    fl = ["clang-asan"]
    specs = []
    # small: 1-3 lists of length 1-8, every not_defined pattern
    modes = ["all", "none", "diagonal", "row", "random", "single", "two"]
    for k in range(7 if tier == "quick" else 21):
        nA, nB = rng.randint(1, 8), rng.randint(1, 8)
        nC = rng.randint(1, 4) if rng.random() < 0.4 else 0
        specs.append((nA, nB, nC, modes[k % len(modes)], k % 2 == 0))
    # around the split of large aggregates (it applies to the *defined* combinations; the library
    # splits above 256 since the fix for clang's template depth, 512 before)
    specs.append((23, 23, 0, "all", rng.random() < 0.5))   # 529 defined: odd, split twice
    specs.append((16, 32, 0, "all", rng.random() < 0.5))   # 512 defined: a std::tuple of 507-512 elements is beyond clang's default depth
    if tier != "quick":
        specs.append((23, 23, 0, "most", True))             # about 513 defined
    if tier != "quick":
        specs.append((23, 22, 0, "all", True))      # 506
        specs.append((16, 16, 0, "all", False))     # 256: exactly at the limit
        specs.append((257, 1, 0, "all", True))      # 257: one above
        specs.append((17, 15, 0, "all", False))     # 255: one below
        specs.append((19, 27, 0, "all", True))      # 513
        specs.append((33, 33, 0, "all", False))     # 1089: split twice
        specs.append((33, 33, 0, "most", True))     # ~1056 defined
        specs.append((32, 32, 0, "all", True))      # 1024: two halves of exactly 512
        specs.append((41, 25, 0, "all", False))     # 1025: halves of 512 / 513
        specs.append((8, 8, 9, "random", True))     # 576 combinations, about half defined
        specs.append((9, 8, 8, "all", False))       # 576 defined, arity 3
    markings = ["conditional", "two-mixins", "private-base"]
    for n, (nA, nB, nC, mode, nested) in enumerate(specs):
        big = nA * nB * max(nC, 1) > 400
        marking = markings[n % 3] if not big else "conditional"
        out.append(make_program("c20-s%d-p%d" % (seed, n), seed * 100 + n, nA, nB, nC, mode, nested,
                                ["clang-asan"] if not big or tier == "quick" else (["clang-asan"] if n % 2 else ["clang-asan-ndebug", "gcc-rel"]), marking))
    return out

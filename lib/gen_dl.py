"""C07 tier B: a main program and two real shared libraries.  The libraries add
classes, definitions and a method of their own; the main program drives a
history of dlopen / dlclose operations, calls update after each, and checks
every call against the table computed here for the set of libraries loaded at
that point - the documented use of update with dynamic loading.  This is the
only place where the registration objects' *destructors* (class_declaration_aux,
definition_info, method) run as the library intends."""
import itertools
import random

from gen_disp import Reg, select, next_of
from tierb import PRELUDE, EPILOGUE, Program


def gen(seed):
    rng = random.Random(seed)
    r = Reg()
    # main classes 0..nm-1, lib1 classes, lib2 classes
    nm = rng.randint(2, 4)
    nl = [rng.randint(1, 2), rng.randint(1, 2)]
    r.n = nm + sum(nl)
    owner = [0] * nm + [1] * nl[0] + [2] * nl[1]
    r.bases = [[] for _ in range(r.n)]
    for c in range(1, nm):
        r.bases[c] = [rng.randrange(c)]
    for c in range(nm, r.n):
        # a library class derives from main classes and possibly from an earlier class of the same library
        cand = [b for b in range(c) if owner[b] in (0, owner[c])]
        r.bases[c] = [rng.choice(cand)]
    r.abstract = [False] * r.n
    der = r.closure()
    methods = []
    for mi in range(rng.randint(1, 2)):
        ar = rng.choice([1, 2])
        vp = [0] * ar
        defs = []
        downer = []
        for _ in range(rng.randint(2, 6)):
            o = rng.choice([0, 0, 1, 2])
            d = []
            for i in range(ar):
                acc = [c for c in range(r.n) if der[c][vp[i]] and owner[c] in (0, o)]
                d.append(rng.choice(acc))
            if d not in defs:
                # a definition that mentions a library class belongs to that library
                o2 = max([owner[c] for c in d] + [o]) if all(owner[c] in (0, o) for c in d) else o
                defs.append(d)
                downer.append(o2)
        methods.append(dict(arity=ar, vp=vp, defs=defs, downer=downer))
    return r, owner, nm, methods, rng


def programs(tier, seed):
    out = []
    n = 2 if tier == "quick" else 12
    for k in range(n):
        out.append(make(seed * 100 + k, "dl-s%d-p%d" % (seed, k), ["gcc-dl"] if k % 2 == 0 else ["clang-dl-asan"]))
    return out


def make(seed, name, flavours):
    r, owner, nm, methods, rng = gen(seed)
    der = r.closure()
    C = lambda c: "K%d" % c
    hdr = ["#pragma once", "#include <yorel/yomm2/keywords.hpp>", "using namespace yorel::yomm2;"]
    for c in range(nm):
        b = r.bases[c]
        hdr.append("struct %s%s { %s int tag%d = %d; };" % (C(c), (" : " + C(b[0])) if b else "", "virtual ~%s() {}" % C(c) if not b else "", c, c))
    hdr.append("extern int g_ran_def; extern void* g_next_ptr;")
    for mi, m in enumerate(methods):
        hdr.append("declare_method(int, meth%d, (%s));" % (mi, ", ".join("virtual_<%s&>" % C(0) for _ in range(m["arity"]))))
    hdr.append("using factory_t = %s* (*)(int);" % C(0))
    files = {"dl.hpp": "\n".join(hdr) + "\n"}

    def defs_code(o):
        L = []
        for mi, m in enumerate(methods):
            for di, d in enumerate(m["defs"]):
                if m["downer"][di] != o:
                    continue
                plist = ", ".join("%s& a%d" % (C(c), i) for i, c in enumerate(d))
                L.append("define_method(int, meth%d, (%s)) { g_ran_def = %d; g_next_ptr = (void*)next; return %d; }" % (mi, plist, 100 * mi + di, 100 * mi + di))
        return L

    for lib in (1, 2):
        L = ['#include "dl.hpp"']
        mine = [c for c in range(r.n) if owner[c] == lib]
        for c in mine:
            L.append("struct %s : %s { int tag%d = %d; };" % (C(c), C(r.bases[c][0]), c, c))
        for c in mine:
            L.append("register_classes(%s, %s);" % (C(c), C(r.bases[c][0])))
        L += defs_code(lib)
        # a method that lives in the library (its method object is registered and unregistered with it)
        L.append("declare_method(int, libmeth%d, (virtual_<%s&>));" % (lib, C(0)))
        L.append("define_method(int, libmeth%d, (%s& a)) { return %d; }" % (lib, C(0), 9000 + lib))
        L.append("define_method(int, libmeth%d, (%s& a)) { return %d; }" % (lib, C(mine[0]), 9100 + lib))
        L.append('extern "C" %s* make_object(int k) {' % C(0))
        for c in mine:
            L.append("    if (k == %d) return new %s;" % (c, C(c)))
        L.append("    return nullptr;\n}")
        L.append('extern "C" int call_libmeth(%s* a) { return libmeth%d(*a); }' % (C(0), lib))
        files["lib%d.cpp" % lib] = "\n".join(L) + "\n"

    main = [PRELUDE.replace("#include <yorel/yomm2/keywords.hpp>", '#include "dl.hpp"'), "#include <dlfcn.h>", "#include <unistd.h>",
            "int g_ran_def = -1; void* g_next_ptr = nullptr;"]
    for c in range(nm):
        main.append("register_classes(%s%s);" % (C(c), (", " + C(r.bases[c][0])) if r.bases[c] else ""))
    main += defs_code(0)
    main.append("static void* g_handle[3]; static factory_t g_make[3]; static int (*g_call[3])(%s*);" % C(0))
    main.append(r'''
static std::string lib_path(int lib) {
    char p[4096];
    p[readlink("/proc/self/exe", p, sizeof(p) - 1)] = 0;
    *strrchr(p, '/') = 0;
    return std::string(p) + "/lib" + std::to_string(lib) + ".so";
}
static bool load(int lib) {
    g_handle[lib] = dlopen(lib_path(lib).c_str(), RTLD_NOW);
    if (!g_handle[lib]) { printf("VFB-FAIL key=C07:dlopen-failed detail=%s\n", dlerror()); return false; }
    g_make[lib] = (factory_t)dlsym(g_handle[lib], "make_object");
    g_call[lib] = (int (*)(K0*))dlsym(g_handle[lib], "call_libmeth");
    return g_make[lib] && g_call[lib];
}
static void unload(int lib) {
    dlclose(g_handle[lib]);
    g_handle[lib] = nullptr;
    // the library must really be gone, otherwise nothing was unregistered
    void* again = dlopen(lib_path(lib).c_str(), RTLD_NOW | RTLD_NOLOAD);
    if (again) { printf("VFB-NOTE library still resident after dlclose\n"); dlclose(again); g_resident = true; }
}
'''.replace("static void unload", "static bool g_resident = false;\nstatic void unload", 1))
    main.append("static void* pf_of(int mi, int di);")
    # pf lookup by class tuple (typeid-based ids, default policy)
    pf = ["static void* pf_of(int mi, int di) {"]
    # cannot name library classes in main: identify definitions by the value they return instead - next is
    # compared through g_ran-based probing, see check_state
    pf.append("    (void)mi; (void)di; return nullptr;\n}")
    main += pf
    # history
    nops = rng.randint(6, 12)
    loaded = set()
    hist = []
    for _ in range(nops):
        lib = rng.choice([1, 2])
        if lib in loaded:
            loaded.discard(lib)
            hist.append(("unload", lib, sorted(loaded)))
        else:
            loaded.add(lib)
            hist.append(("load", lib, sorted(loaded)))
    body = ["int main() {", "    set_error_handler([](const error_type& e) { if (auto r = std::get_if<resolution_error>(&e)) throw *r; if (auto u = std::get_if<unknown_class_error>(&e)) throw *u; });"]
    for c in range(nm):
        body.append("    %s o%d;" % (C(c), c))
    body.append("    %s* dyn[%d] = {};" % (C(0), r.n))

    def state_checks(loaded_now, label):
        Lc = []
        live_cls = [c for c in range(r.n) if owner[c] == 0 or owner[c] in loaded_now]
        Lc.append("    { bool upd_ok = true; try { update(); } catch (unknown_class_error&) { upd_ok = false; }")
        Lc.append('      CHECK(upd_ok, "C07:update-fails-after-history", "%s: update reported an unknown class");' % label)
        Lc.append("      if (upd_ok) {")
        for lib in (1, 2):
            if lib in loaded_now:
                for c in [c for c in range(r.n) if owner[c] == lib]:
                    Lc.append("        if (!dyn[%d]) dyn[%d] = g_make[%d](%d);" % (c, c, lib, c))
        for mi, m in enumerate(methods):
            live = dict(arity=m["arity"], vp=m["vp"], defs=[d if m["downer"][di] == 0 or m["downer"][di] in loaded_now else None for di, d in enumerate(m["defs"])])
            # the oracle on the live definitions only (dead ones can apply to nothing)
            idx = [di for di, d in enumerate(live["defs"]) if d is not None]
            mm = dict(arity=m["arity"], vp=m["vp"], defs=[m["defs"][di] for di in idx])
            accs = [[c for c in live_cls if der[c][m["vp"][i]]] for i in range(m["arity"])]
            tuples = list(itertools.product(*accs))
            if len(tuples) > 40:
                tuples = rng.sample(tuples, 40)
            for tup in tuples:
                s = select(der, mm, tup)
                args = ", ".join(("o%d" % c) if owner[c] == 0 else ("*dyn[%d]" % c) for c in tup)
                Lc.append("        { g_ran_def = -1; int st = 0; int res = -1; try { res = meth%d(%s); } catch (resolution_error& e) { st = e.status; }" % (mi, args))
                tdesc = "%s: meth%d(%s)" % (label, mi, ",".join(C(c) for c in tup))
                if s[0] == "DEF":
                    want = 100 * mi + idx[s[1]]
                    Lc.append('          CHECK(st == 0 && res == %d && g_ran_def == %d, "C07:differs-from-fresh-process:call", "%s ran %%d (status %%d), the current registrations select %d", g_ran_def, st); }' % (want, want, tdesc, want))
                else:
                    w = 1 if s[0] == "NODEF" else 2
                    Lc.append('          CHECK(st == %d && g_ran_def == -1, "C07:differs-from-fresh-process:call", "%s ran %%d status %%d, the current registrations give status %d", g_ran_def, st); }' % (w, tdesc, w))
        for lib in (1, 2):
            if lib in loaded_now:
                mine = [c for c in range(r.n) if owner[c] == lib]
                Lc.append('        CHECK(g_call[%d](&o0) == %d, "C07:differs-from-fresh-process:library-method", "%s: the library\'s own method on a main class");' % (lib, 9000 + lib, label))
                Lc.append('        CHECK(g_call[%d](dyn[%d]) == %d, "C07:differs-from-fresh-process:library-method", "%s: the library\'s own method on its class");' % (lib, mine[0], 9100 + lib, label))
        Lc.append("      }")
        Lc.append("    }")
        return Lc

    body += state_checks([], "initial")
    label = "initial"
    for k, (op, lib, now) in enumerate(hist):
        label = "after " + " ".join("%s%d" % (o[0], l) for o, l, _ in hist[:k + 1])
        if op == "load":
            body.append("    if (!load(%d)) { printf(\"VFB-COUNT %%ld\\nVFB-DONE\\n\", g_checks); return 1; }" % lib)
        else:
            for c in [c for c in range(r.n) if owner[c] == lib]:
                body.append("    delete dyn[%d]; dyn[%d] = nullptr;" % (c, c))
            body.append("    unload(%d);" % lib)
            body.append('    if (g_resident) { printf("VFB-FAIL key=C07:harness:library-not-unloaded detail=dlclose did not unload the library\\n"); printf("VFB-COUNT %ld\\nVFB-DONE\\n", g_checks); return 1; }')
        body += state_checks(now, label)
        if rng.random() < 0.3:
            body += state_checks(now, label + " + update again")
    combo = "dl/main=%d/libs=%d+%d/methods=%s/history=%s" % (nm, sum(1 for o in owner if o == 1), sum(1 for o in owner if o == 2), "+".join(str(m["arity"]) for m in methods),
                                                           "".join("%s%d" % (o[0], l) for o, l, _ in hist))
    body.append('    printf("VFB-COMBO %s\\n");' % combo)
    src = "\n".join(main) + "\n" + "\n".join(body) + EPILOGUE + "}\n"
    p = Program(name, src, combos=[combo], flavours=flavours, timeout=300)
    p.extra_files = files
    p.shared_libs = ["lib1", "lib2"]
    return p

"""C11 programs: definitions receive the caller's own arguments, correctly
adjusted, for every parameter kind x inheritance shape x position x non-virtual
category x return kind."""
import random

from tierb import PRELUDE, EPILOGUE, Program

ZOO = r'''
struct Tracked {
    int id;
    int copies = 0, moves = 0;
    explicit Tracked(int i) : id(i) {}
    Tracked(const Tracked& o) : id(o.id), copies(o.copies + 1), moves(o.moves) {}
    Tracked(Tracked&& o) noexcept : id(o.id), copies(o.copies), moves(o.moves + 1) { o.id = -1; }
    Tracked& operator=(const Tracked&) = default;
};

struct Base { virtual ~Base() {} int base_tag = 11; };
struct Pad1 { virtual ~Pad1() {} long pad[3] = {1, 2, 3}; };
struct Single : Base { int s = 22; };
struct Second : Pad1, Base { int t = 33; };      // Base at a non-zero offset
struct VBase : virtual Base { int v = 44; };       // needs dynamic_cast
struct Deep : Second { int d = 55; };              // two levels
struct DeepV : Pad1, VBase { int dv = 66; };       // two levels mixing both
register_classes(Base, Single, Second, VBase, Deep, DeepV);

static const void* g_exp[8];     // per parameter: the address / identity the definition must see
static long g_expv[8];           // per parameter: expected value
static int g_ran = -1;
static std::shared_ptr<Base> g_owner[8];
static Tracked g_ret(4242);

template<class A, class B>
static bool same_owner(const std::shared_ptr<A>& a, const std::shared_ptr<B>& b) {
    return !a.owner_before(b) && !b.owner_before(a);
}
'''

# (definition class D, object class O): O is D or derives from it
SHAPES = [
    ("same", "Base", "Base"), ("same-derived-object", "Base", "Second"),
    ("single", "Single", "Single"),
    ("second-base", "Second", "Second"), ("second-base-deeper-object", "Second", "Deep"),
    ("virtual-base", "VBase", "VBase"), ("virtual-base-deeper-object", "VBase", "DeepV"),
    ("two-levels", "Deep", "Deep"), ("two-levels-mixed", "DeepV", "DeepV"),
]

VKINDS = ["ref", "cref", "rref", "ptr", "sp", "csp", "vp", "cvp", "vsp", "cvsp"]
NVKINDS = ["val", "val-xvalue", "lref", "cref", "rref", "mo", "int", "dbl", "str"]
RETKINDS = ["void", "int", "tracked", "ref"]


def vtypes(kind, D):
    """(method parameter type, definition parameter type)"""
    t = {
        "ref": ("virtual_<Base&>", "%s&" % D),
        "cref": ("virtual_<const Base&>", "const %s&" % D),
        "rref": ("virtual_<Base&&>", "%s&&" % D),
        "ptr": ("virtual_<Base*>", "%s*" % D),
        "sp": ("virtual_<std::shared_ptr<Base>>", "std::shared_ptr<%s>" % D),
        "csp": ("virtual_<const std::shared_ptr<Base>&>", "const std::shared_ptr<%s>&" % D),
        "vp": ("virtual_ptr<Base>", "virtual_ptr<%s>" % D),
        "cvp": ("const virtual_ptr<Base>&", "const virtual_ptr<%s>&" % D),
        "vsp": ("virtual_shared_ptr<Base>", "virtual_shared_ptr<%s>" % D),
        "cvsp": ("const virtual_shared_ptr<Base>&", "const virtual_shared_ptr<%s>&" % D),
    }
    return t[kind]


def nvtypes(kind):
    return {
        "val": "Tracked", "val-xvalue": "Tracked", "lref": "Tracked&", "cref": "const Tracked&", "rref": "Tracked&&",
        "mo": "std::unique_ptr<int>", "int": "int", "dbl": "double", "str": "const std::string&",
    }[kind]


def gen_method(i, rng, vkind, shape, nparams, vpos, nvkinds, ret, api, second=None):
    """returns (declarations, call function body, combo string)"""
    sname, D, O = shape
    params = []  # (is_virtual, kind, shape)
    nv = list(nvkinds)
    for p in range(nparams):
        if p == vpos:
            params.append((True, vkind, shape))
        elif second and p == second[0]:
            params.append((True, second[1], second[2]))
        else:
            params.append((False, nv.pop(0), None))
    mtypes, dtypes = [], []
    for isv, k, sh in params:
        if isv:
            mt, dt = vtypes(k, sh[1])
        else:
            mt = dt = nvtypes(k)
        mtypes.append(mt)
        dtypes.append(dt)
    rett = {"void": "void", "int": "int", "tracked": "Tracked", "ref": "Tracked&"}[ret]
    body = ["    g_ran = %d;" % i]
    tag = "m%d" % i
    for p, (isv, k, sh) in enumerate(params):
        a = "a%d" % p
        key_ctx = ""
        if isv:
            kk = "C11:wrong-object:%s:%s" % (k, sh[0])
            if k in ("ref", "cref", "rref"):
                body.append('    CHECK((const void*)&%s == g_exp[%d], "%s", "%s parameter %d: definition sees %%p, caller passed %%p", (const void*)&%s, g_exp[%d]);' % (a, p, kk, tag, p, a, p))
            elif k == "ptr":
                body.append('    CHECK((const void*)%s == g_exp[%d], "%s", "%s parameter %d: definition sees %%p, caller passed %%p", (const void*)%s, g_exp[%d]);' % (a, p, kk, tag, p, a, p))
            elif k in ("sp", "csp"):
                body.append('    CHECK((const void*)%s.get() == g_exp[%d], "%s", "%s parameter %d: shared_ptr points to %%p, caller passed %%p", (const void*)%s.get(), g_exp[%d]);' % (a, p, kk, tag, p, a, p))
                body.append('    CHECK(same_owner(%s, g_owner[%d]), "C11:ownership-not-shared:%s:%s", "%s parameter %d: the shared_ptr received does not share ownership with the caller\'s");' % (a, p, k, sh[0], tag, p))
            elif k in ("vp", "cvp"):
                body.append('    CHECK((const void*)&*%s == g_exp[%d] && (const void*)%s.get() == g_exp[%d], "%s", "%s parameter %d: virtual_ptr points to %%p, caller passed %%p", (const void*)%s.get(), g_exp[%d]);' % (a, p, a, p, kk, tag, p, a, p))
            elif k in ("vsp", "cvsp"):
                body.append('    CHECK((const void*)%s.get().get() == g_exp[%d], "%s", "%s parameter %d: virtual_shared_ptr points to %%p, caller passed %%p", (const void*)%s.get().get(), g_exp[%d]);' % (a, p, kk, tag, p, a, p))
                body.append('    CHECK(same_owner(%s.get(), g_owner[%d]), "C11:ownership-not-shared:%s:%s", "%s parameter %d: the virtual_shared_ptr received does not share ownership with the caller\'s");' % (a, p, k, sh[0], tag, p))
            # the object is usable as a D
            D2 = sh[1]
            member = {"Base": "base_tag", "Single": "s", "Second": "t", "VBase": "v", "Deep": "d", "DeepV": "dv"}[D2]
            val = {"Base": 11, "Single": 22, "Second": 33, "VBase": 44, "Deep": 55, "DeepV": 66}[D2]
            acc = {"ref": "%s.%s", "cref": "%s.%s", "rref": "%s.%s", "ptr": "%s->%s", "sp": "%s->%s", "csp": "%s->%s",
                   "vp": "%s->%s", "cvp": "%s->%s", "vsp": "%s->%s", "cvsp": "%s->%s"}[k] % (a, member)
            body.append('    CHECK(%s == %d, "C11:object-not-viewed-as-definition-class:%s:%s", "%s parameter %d: member of %s reads %%d", (int)%s);' % (acc, val, k, sh[0], tag, p, D2, acc))
        else:
            if k in ("val", "val-xvalue"):
                body.append('    CHECK(%s.id == (int)g_expv[%d], "C11:nonvirtual-value-changed:by-value", "%s parameter %d: id %%d expected %%ld", %s.id, g_expv[%d]);' % (a, p, tag, p, a, p))
                body.append('    CHECK(%s.copies == 0, "C11:rvalue-copied:nonvirtual-by-value", "%s parameter %d: %%d copies on the way to the definition", %s.copies);' % (a, tag, p, a))
                body.append('    CHECK(%s.moves <= 1, "C11:moves>1:nonvirtual-by-value", "%s parameter %d: moved %%d times", %s.moves);' % (a, tag, p, a))
            elif k == "lref":
                body.append('    CHECK((const void*)&%s == g_exp[%d], "C11:nonvirtual-identity:lvalue-ref", "%s parameter %d: not the caller\'s object");' % (a, p, tag, p))
                body.append('    %s.id += 1;' % a)
            elif k == "cref":
                body.append('    CHECK((const void*)&%s == g_exp[%d], "C11:nonvirtual-identity:const-ref", "%s parameter %d: not the caller\'s object");' % (a, p, tag, p))
            elif k == "rref":
                body.append('    CHECK((const void*)&%s == g_exp[%d] && %s.copies == 0 && %s.moves == 0, "C11:nonvirtual-identity:rvalue-ref", "%s parameter %d: not the caller\'s object (copies %%d moves %%d)", %s.copies, %s.moves);' % (a, p, a, a, tag, p, a, a))
            elif k == "mo":
                body.append('    CHECK(%s && (const void*)%s.get() == g_exp[%d] && *%s == (int)g_expv[%d], "C11:nonvirtual-identity:move-only", "%s parameter %d: unique_ptr does not hold the caller\'s int");' % (a, a, p, a, p, tag, p))
            elif k == "int":
                body.append('    CHECK(%s == (int)g_expv[%d], "C11:nonvirtual-value-changed:int", "%s parameter %d: %%d expected %%ld", %s, g_expv[%d]);' % (a, p, tag, p, a, p))
            elif k == "dbl":
                body.append('    CHECK(%s == (double)g_expv[%d] / 4, "C11:nonvirtual-value-changed:double", "%s parameter %d: %%f", %s);' % (a, p, tag, p, a))
            elif k == "str":
                body.append('    CHECK((const void*)&%s == g_exp[%d], "C11:nonvirtual-identity:string-ref", "%s parameter %d: not the caller\'s string");' % (a, p, tag, p))
    retexpr = {"void": "", "int": "    return %d;" % (7000 + i), "tracked": "    return Tracked(%d);" % (7000 + i), "ref": "    return g_ret;"}[ret]
    dparams = ", ".join("%s a%d" % (t, p) for p, t in enumerate(dtypes))
    decl = []
    if api == "class":
        decl.append("struct K%d;" % i)
        decl.append("using M%d = method<K%d, %s(%s)>;" % (i, i, rett, ", ".join(mtypes)))
        decl.append("static %s def%d(%s) {\n%s\n%s\n}" % (rett, i, dparams, "\n".join(body), retexpr))
        decl.append("static M%d::add_function<def%d> reg%d;" % (i, i, i))
        callee = "M%d::fn" % i
    else:
        decl.append("declare_method(%s, meth%d, (%s));" % (rett, i, ", ".join(mtypes)))
        decl.append("define_method(%s, meth%d, (%s)) {\n%s\n%s\n}" % (rett, i, dparams, "\n".join(body), retexpr))
        callee = "meth%d" % i
    # ---- the caller
    call = ["static void call%d() {" % i, "    g_ran = -1;"]
    args = []
    post = []
    for p, (isv, k, sh) in enumerate(params):
        if isv:
            D2, O2 = sh[1], sh[2]
            if k in ("ref", "cref", "rref", "ptr", "vp", "cvp"):
                call.append("    %s o%d;" % (O2, p))
                call.append("    g_exp[%d] = (const void*)static_cast<%s*>(&o%d);" % (p, D2, p))
                if k in ("ref", "cref"):
                    args.append("static_cast<Base&>(o%d)" % p)
                elif k == "rref":
                    args.append("static_cast<Base&&>(o%d)" % p)
                elif k == "ptr":
                    args.append("static_cast<Base*>(&o%d)" % p)
                else:
                    how = rng.choice(["exact", "base-ref", "copy"] + (["final"] if O2 == "Base" else []))
                    if how == "exact":
                        call.append("    virtual_ptr<Base> v%d(o%d);" % (p, p))
                    elif how == "base-ref":
                        call.append("    virtual_ptr<Base> v%d(static_cast<Base&>(o%d));" % (p, p))
                    elif how == "final":
                        call.append("    auto v%d = virtual_ptr<Base>::final(o%d);" % (p, p))
                    else:
                        call.append("    virtual_ptr<%s> w%d(o%d); virtual_ptr<Base> v%d(w%d);" % (O2, p, p, p, p))
                    args.append("v%d" % p)
            else:
                call.append("    auto so%d = std::make_shared<%s>();" % (p, O2))
                call.append("    std::shared_ptr<Base> sb%d = so%d;" % (p, p))
                call.append("    g_owner[%d] = sb%d;" % (p, p))
                call.append("    g_exp[%d] = (const void*)static_cast<%s*>(so%d.get());" % (p, D2, p))
                if k == "sp":
                    args.append("std::shared_ptr<Base>(sb%d)" % p if rng.random() < 0.5 else "sb%d" % p)
                elif k == "csp":
                    args.append("sb%d" % p)
                else:
                    how = rng.choice(["from-base-sp", "from-exact-sp", "copy"])
                    extra_refs = 1 + (1 if how == "copy" else 0)
                    if how == "from-base-sp":
                        call.append("    virtual_shared_ptr<Base> v%d(sb%d);" % (p, p))
                    elif how == "from-exact-sp":
                        call.append("    virtual_shared_ptr<Base> v%d(so%d);" % (p, p))
                    else:
                        call.append("    virtual_shared_ptr<%s> w%d(so%d); virtual_shared_ptr<Base> v%d(w%d);" % (O2, p, p, p, p))
                    args.append("v%d" % p)
                post.append('    g_owner[%d].reset();' % p)
                post.append('    CHECK(so%d.use_count() == %d, "C11:ownership-leaked-or-lost:%s", "m%d parameter %d: use_count %%ld after the call", (long)so%d.use_count());' % (p, 2 + (extra_refs if k in ("vsp", "cvsp") else 0), k, i, p, p))
                post.append('    CHECK(so%d->base_tag == 11, "C11:object-destroyed-during-call:%s", "m%d parameter %d");' % (p, k, i, p))
        else:
            val = 100 * i + p
            if k == "val":
                call.append("    g_expv[%d] = %d;" % (p, val))
                args.append("Tracked(%d)" % val)
            elif k == "val-xvalue":
                call.append("    Tracked t%d(%d); g_expv[%d] = %d;" % (p, val, p, val))
                args.append("std::move(t%d)" % p)
            elif k == "lref":
                call.append("    Tracked t%d(%d); g_exp[%d] = &t%d;" % (p, val, p, p))
                args.append("t%d" % p)
                post.append('    CHECK(t%d.id == %d, "C11:nonvirtual-identity:lvalue-ref", "m%d parameter %d: the definition\'s modification is not visible to the caller");' % (p, val + 1, i, p))
            elif k == "cref":
                call.append("    Tracked t%d(%d); g_exp[%d] = &t%d;" % (p, val, p, p))
                args.append("t%d" % p)
            elif k == "rref":
                call.append("    Tracked t%d(%d); g_exp[%d] = &t%d;" % (p, val, p, p))
                args.append("std::move(t%d)" % p)
            elif k == "mo":
                call.append("    auto u%d = std::make_unique<int>(%d); g_exp[%d] = u%d.get(); g_expv[%d] = %d;" % (p, val, p, p, p, val))
                args.append("std::move(u%d)" % p)
            elif k == "int":
                call.append("    g_expv[%d] = %d;" % (p, val))
                args.append("%d" % val)
            elif k == "dbl":
                call.append("    g_expv[%d] = %d;" % (p, val))
                args.append("%d / 4.0" % val)
            elif k == "str":
                call.append("    std::string s%d = \"string-%d\"; g_exp[%d] = &s%d;" % (p, val, p, p))
                args.append("s%d" % p)
    invoke = "%s(%s)" % (callee, ", ".join(args))
    if ret == "void":
        call.append("    %s;" % invoke)
    elif ret == "int":
        call.append("    int r = %s;" % invoke)
        call.append('    CHECK(r == %d, "C11:return-value-changed:int", "m%d returned %%d", r);' % (7000 + i, i))
    elif ret == "tracked":
        call.append("    Tracked r = %s;" % invoke)
        call.append('    CHECK(r.id == %d && r.copies == 0, "C11:return-value-changed:by-value", "m%d returned id %%d copies %%d", r.id, r.copies);' % (7000 + i, i))
    else:
        call.append("    Tracked& r = %s;" % invoke)
        call.append('    CHECK(&r == &g_ret, "C11:return-value-changed:reference", "m%d returned a reference to another object");' % i)
    call.append('    CHECK(g_ran == %d, "C11:definition-did-not-run", "m%d: g_ran = %%d", g_ran);' % (i, i))
    call += post
    nvdesc = ",".join(k for isv, k, sh in params if not isv) or "-"
    combo = "%s/%s/pos%d-of-%d/nv:%s/ret:%s/%s" % (vkind, sname, vpos, nparams, nvdesc, ret, api)
    if second:
        combo += "/second:%s/%s" % (second[1], second[2][0])
    call.append('    printf("VFB-COMBO %s\\n");' % combo)
    call.append("}")
    return "\n".join(decl), "\n".join(call), combo


def make_program(name, seed, nmethods, forced_pairs, flavours, with_move_only=True):
    rng = random.Random(seed)
    nvkinds = NVKINDS if with_move_only else [k for k in NVKINDS if k != "mo"]
    decls, calls, combos = [], [], []
    for i in range(nmethods):
        if forced_pairs:
            vkind, shape = forced_pairs.pop()
        else:
            vkind, shape = rng.choice(VKINDS), rng.choice(SHAPES)
        nparams = rng.choice([1, 2, 2, 3, 3, 4])
        vpos = rng.randrange(nparams)
        second = None
        if nparams >= 3 and rng.random() < 0.3:
            sp = rng.choice([p for p in range(nparams) if p != vpos])
            second = (sp, rng.choice(VKINDS), rng.choice(SHAPES))
        nnv = nparams - 1 - (1 if second else 0)
        nvk = [rng.choice(nvkinds) for _ in range(nnv)]
        ret = rng.choice(RETKINDS)
        api = "macro" if rng.random() < 0.25 else "class"
        d, c, combo = gen_method(i, rng, vkind, shape, nparams, vpos, nvk, ret, api, second)
        decls.append(d)
        calls.append(c)
        combos.append(combo)
    main = ["int main() {", "    update();"]
    for i in range(nmethods):
        main.append("    call%d();" % i)
    src = PRELUDE + ZOO + "\n\n".join(decls) + "\n\n" + "\n\n".join(calls) + "\n\n" + "\n".join(main) + EPILOGUE + "}\n"
    return Program(name, src, combos=combos, flavours=flavours)


def programs(tier, seed):
    rng = random.Random(seed)
    pairs = [(k, s) for k in VKINDS for s in SHAPES]
    rng.shuffle(pairs)
    nprog = 8 if tier == "quick" else 120
    per = 16
    out = []
    for n in range(nprog):
        flav = ["clang-asan"] if tier == "quick" else (["clang-asan", "gcc-rel"] if n % 3 else ["clang-asan-ndebug", "gcc-dbg"])
        if tier == "quick" and n % 4 == 3:
            flav = ["clang-asan-ndebug"]
        forced = [pairs.pop() for _ in range(min(per, len(pairs)))]
        # move-only by-value parameters only in every other program: a library that cannot compile
        # them must not hide what the other programs observe
        out.append(make_program("c11-s%d-p%d" % (seed, n), seed * 1000 + n, per, forced, flav, with_move_only=(n % 2 == 0)))
    return out

#!/usr/bin/env python3
"""Rewrites the seeded-changes table of DESIGN.md from seeded/*/meta.json."""
import glob
import json
import os
import re

VERIF = os.path.dirname(os.path.dirname(os.path.abspath(__file__)))
rows = ["| seeded change | breaks | confirmed (suite green, demo without / with) | checks run -> detected (first keys) |", "|---|---|---|---|"]
for mp in sorted(glob.glob(os.path.join(VERIF, "seeded", "*", "meta.json"))):
    m = json.load(open(mp))
    checks = "; ".join("%s -> %s%s" % (c["check"], "**yes**" if c["detected"] else "no",
                                       (" (" + ", ".join(c["keys"].split()[:2]) + ")") if c["keys"] else "") for c in m["checks_run"])
    note = m.get("note", "")
    rows.append("| `%s` | %s | %s (suite %s, demo %d / %d) | %s%s |" % (
        m["name"], m["breaks_property"], "yes" if m["confirmed"] else "NO", m["existing_suite_with_change"],
        m["demo_exit_without_change"], m["demo_exit_with_change"], checks, (" — " + note) if note else ""))
table = "\n".join(rows)
p = os.path.join(VERIF, "DESIGN.md")
s = open(p).read()
s = re.sub(r"<!-- SEEDED-TABLE-BEGIN -->.*?<!-- SEEDED-TABLE-END -->", "<!-- SEEDED-TABLE-BEGIN -->\n" + table + "\n<!-- SEEDED-TABLE-END -->", s, flags=re.S)
open(p, "w").write(s)
print(table)

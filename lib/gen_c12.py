"""C12 tier B: offsets that do not fit in 16 bits.

The tier-A harness cannot produce a stride above 96 * 96 (its class limit), so
the step "generated numbers == installed numbers" is repeated here on a
registry whose 4-method has 40+ groups in each of its first dimensions: the
stride of the last virtual parameter exceeds 65535 and the dispatch table has
tens of thousands of cells.  The program writes the static offsets with the
real generator, reads the numbers back from the text (whatever its layout) and
compares them with method::slots_strides, then dispatches a sample of calls
through the table that update built.
"""
import random

from tierb import PRELUDE, EPILOGUE, Program

TEMPLATE = r'''
#include <yorel/yomm2/generator.hpp>
#include <sstream>
#include <cctype>

struct Node { virtual ~Node() {} int tag = 0; };
template<int N> struct Leaf : Node { Leaf() { tag = N + 1; } };
constexpr int LEAVES = @LEAVES@;

struct wide_key;
using Wide = method<wide_key, int(@PARAMS@)>;
struct narrow_key;
using Narrow = method<narrow_key, int(virtual_<Node&>, virtual_<Node&>)>;

static int fallback(@ARGS_NODE@) { return 0; }
static Wide::add_function<fallback> reg_fallback;
static int narrow_fallback(Node&, Node&) { return -1; }
static Narrow::add_function<narrow_fallback> reg_narrow_fallback;

// one definition per leaf and per selecting position: (Leaf<N> at position P, Node elsewhere)
template<int N, int P> struct sel;
@SELECTORS@

template<int... N>
struct leaves_ {
    use_classes<Node, Leaf<N>...> classes;
@REGS@
};
template<class Seq> struct mk;
template<int... N> struct mk<std::integer_sequence<int, N...>> { using type = leaves_<N...>; };
static mk<std::make_integer_sequence<int, LEAVES>>::type g_all;

// the numbers of one "name[] = { ... }" list in the generated text
static bool numbers_after(const std::string& text, const std::string& name, std::vector<unsigned long long>& out) {
    auto p = text.find(name);
    if (p == std::string::npos) return false;
    p = text.find('{', p);
    auto e = text.find('}', p);
    if (p == std::string::npos || e == std::string::npos) return false;
    unsigned long long v = 0; bool in = false;
    for (auto i = p; i <= e; ++i) {
        if (isdigit((unsigned char)text[i])) { v = v * 10 + (text[i] - '0'); in = true; }
        else { if (in) out.push_back(v); v = 0; in = false; }
    }
    return true;
}

template<int N> Node& leaf_object() { static Leaf<N> o; return o; }
template<int... N> static void all_objects(std::vector<Node*>& v, std::integer_sequence<int, N...>) { (v.push_back(&leaf_object<N>()), ...); }

int main() {
    update();
    constexpr int AR = @ARITY@;
    std::ostringstream os;
    generator().write_static_offsets<Wide>(os);
    std::string text = os.str();
    std::vector<unsigned long long> slots, strides;
    bool ok1 = numbers_after(text, "slots", slots), ok2 = numbers_after(text, "strides", strides);
    CHECK(ok1 && ok2 && slots.size() == AR && strides.size() == AR - 1, "C12:wide:malformed-text", "slots %zu strides %zu in: %.200s", slots.size(), strides.size(), text.c_str());
    bool wide = false;
    for (int i = 0; i < AR && i < (int)slots.size(); ++i)
        CHECK(slots[i] == Wide::fn.slots_strides_ptr[i], "C12:wide:slot-differs", "slots[%d]: generated %llu, update installed %zu", i, slots[i], Wide::fn.slots_strides_ptr[i]);
    for (int i = 0; i + 1 < AR && i < (int)strides.size(); ++i) {
        CHECK(strides[i] == Wide::fn.slots_strides_ptr[AR + i], "C12:wide:stride-differs", "strides[%d]: generated %llu, update installed %zu", i, strides[i], Wide::fn.slots_strides_ptr[AR + i]);
        wide = wide || Wide::fn.slots_strides_ptr[AR + i] > 65535;
    }
    CHECK(wide, "C12:wide:harness-expected-a-stride-above-65535", "largest stride too small: the program does not exercise what it is meant to");
    // the whole policy at once: every method gets its own numbers
    std::ostringstream os2;
    generator().write_static_offsets<default_policy>(os2);
    std::string all = os2.str();
    size_t count = 0;
    for (size_t p = all.find("slots"); p != std::string::npos; p = all.find("slots", p + 1)) ++count;
    CHECK(count == 2, "C12:wide:wrong-number-of-specialisations", "%zu specialisations written for 2 methods", count);
    // dispatch through the table update built: the most specific definition is the one selected
    // by the left-most leaf argument... only when exactly one argument is a leaf (else ambiguous)
    std::vector<Node*> objs;
    all_objects(objs, std::make_integer_sequence<int, LEAVES>());
    static Node plain;
    unsigned long long rnd = @SEED@;
    for (int k = 0; k < 3000; ++k) {
        rnd = rnd * 6364136223846793005ULL + 1442695040888963407ULL;
        int pos = (rnd >> 33) % @NSEL@;
        int leaf = (rnd >> 40) % LEAVES;
        Node* a[4] = {&plain, &plain, &plain, &plain};
        a[pos] = objs[leaf];
        int r = Wide::fn(@CALLARGS@);
        CHECK(r == 1000 * (pos + 1) + leaf, "C12:wide:wrong-definition-through-wide-table", "leaf %d at position %d: result %d", leaf, pos, r);
    }
    CHECK(Wide::fn(@PLAINARGS@) == 0, "C12:wide:wrong-definition-through-wide-table", "all-Node call");
    printf("VFB-COMBO wide-strides/leaves=%d/arity=%d/selecting-positions=%d\n", LEAVES, AR, @NSEL@);
'''


def program(name, seed, flavours):
    rng = random.Random(seed)
    arity = 4
    nsel = 3  # selecting positions: the first three dimensions get LEAVES + 1 groups each
    leaves = rng.randint(41, 44)  # (leaves + 1) ** 3 > 65535
    params = ", ".join(["virtual_<Node&>"] * arity)
    args_node = ", ".join(["Node&"] * arity)
    sels, regs = [], []
    for p in range(nsel):
        ptypes = ["Node&"] * arity
        ptypes[p] = "Leaf<N>&"
        sels.append("template<int N> struct sel<N, %d> { static int fn(%s) { return %d + N; } };" % (p, ", ".join(ptypes), 1000 * (p + 1)))
        regs.append("    std::tuple<Wide::add_function<sel<N, %d>::fn>...> regs%d;" % (p, p))
    src = TEMPLATE
    for k, v in {"LEAVES": leaves, "PARAMS": params, "ARGS_NODE": args_node, "SELECTORS": "\n".join(sels), "REGS": "\n".join(regs),
                 "ARITY": arity, "NSEL": nsel, "SEED": "%dULL" % (seed * 7919 + 13),
                 "CALLARGS": ", ".join("*a[%d]" % i for i in range(arity)), "PLAINARGS": ", ".join(["plain"] * arity)}.items():
        src = src.replace("@%s@" % k, str(v))
    return Program(name, PRELUDE + src + EPILOGUE + "}\n", combos=["wide-strides"], flavours=flavours, timeout=600)


def programs(tier, seed):
    out = [program("c12wide-s%d-0" % seed, seed * 3 + 1, ["gcc-dbg"])]
    if tier != "quick":
        out.append(program("c12wide-s%d-1" % seed, seed * 3 + 2, ["clang-asan-ndebug"]))
        out.append(program("c12wide-s%d-2" % seed, seed * 3 + 3, ["gcc-rel"]))
    return out

"""Tier B: generated programs that use only the public API (the template
front-end: class registration, method<>, add_function / macros, thunks,
use_definitions).  Each program checks itself while it runs and prints

    VFB-FAIL key=<violation key> detail=<text>
    VFB-COUNT <number of checks executed>
    VFB-COMBO <combination covered>

The driver compiles (clang++-14 -O0 ASan+UBSan; thorough: also g++ -O2 -DNDEBUG),
runs, and turns failures, sanitizer reports, crashes and compile errors into
violations with the program source as the witness.
"""
import json
import os
import re
import shutil
import subprocess
import tempfile
import time
from concurrent.futures import ThreadPoolExecutor

import vfbuild
import vfcheck

COMPILERS = {
    "clang-asan": ["clang++-14", "-std=c++17", "-O0", "-g", "-fsanitize=address,undefined", "-fno-sanitize-recover=all",
                   "-fno-sanitize=object-size", "-Wno-everything"],
    "clang-asan-ndebug": ["clang++-14", "-std=c++17", "-O0", "-g", "-DNDEBUG", "-fsanitize=address,undefined",
                          "-fno-sanitize-recover=all", "-fno-sanitize=object-size", "-Wno-everything"],
    "gcc-rel": ["g++", "-std=c++17", "-O2", "-DNDEBUG", "-w"],
    "gcc-dbg": ["g++", "-std=c++17", "-O0", "-g", "-w"],
    # threads: ThreadSanitizer, reports fatal
    "gcc-tsan": ["g++", "-std=c++17", "-O1", "-g", "-fsanitize=thread", "-w"],
    "gcc-tsan-ndebug": ["g++", "-std=c++17", "-O1", "-g", "-DNDEBUG", "-fsanitize=thread", "-w"],
    # programs with shared libraries (dlopen / dlclose): template statics must not be STB_GNU_UNIQUE,
    # otherwise glibc never unloads the library
    "gcc-dl": ["g++", "-std=c++17", "-O1", "-g", "-w", "-fno-gnu-unique", "-fPIC"],
    "clang-dl-asan": ["clang++-14", "-std=c++17", "-O0", "-g", "-fPIC", "-fsanitize=address,undefined", "-fno-sanitize-recover=all",
                      "-fno-sanitize=object-size,vptr", "-Wno-everything"],
}


class Program:
    def __init__(self, name, source, combos=None, flavours=("clang-asan",), timeout=300, may_not_compile_key=None):
        self.name = name
        self.source = source
        self.combos = combos or []
        self.flavours = list(flavours)
        self.timeout = timeout
        self.may_not_compile_key = may_not_compile_key
        self.results = []  # (flavour, fails[(key, detail)], count, combos_seen, crash_text, compile_error)


def _run_one(prog, flavour, workdir):
    src = os.path.join(workdir, prog.name + ".cpp")
    exe = os.path.join(workdir, prog.name + "-" + flavour)
    if not os.path.exists(src) and not getattr(prog, "extra_files", None):
        with open(src, "w") as f:
            f.write(prog.source)
    extra = getattr(prog, "extra_files", None)
    if extra:
        # a main program plus shared libraries, in their own directory (the program finds the
        # libraries next to its executable)
        pdir = os.path.join(workdir, prog.name + "-" + flavour + ".d")
        os.makedirs(pdir, exist_ok=True)
        for fn, content in extra.items():
            with open(os.path.join(pdir, fn), "w") as f:
                f.write(content)
        src = os.path.join(pdir, "main.cpp")
        with open(src, "w") as f:
            f.write(prog.source)
        exe = os.path.join(pdir, "main")
        for lib in prog.shared_libs:
            cmd = COMPILERS[flavour] + ["-shared", "-I%s/include" % vfbuild.repo_dir(), "-I" + pdir, os.path.join(pdir, lib + ".cpp"),
                                       "-o", os.path.join(pdir, lib + ".so")]
            p = subprocess.run(cmd, stdout=subprocess.PIPE, stderr=subprocess.STDOUT, text=True, errors="replace")
            if p.returncode != 0:
                return (flavour, [], 0, [], None, p.stdout[-6000:])
        cmd = COMPILERS[flavour] + ["-I%s/include" % vfbuild.repo_dir(), "-I" + pdir, src, "-o", exe, "-Wl,-export-dynamic", "-pthread", "-ldl"]
    else:
        cmd = COMPILERS[flavour] + ["-I%s/include" % vfbuild.repo_dir(), src, "-o", exe, "-pthread", "-ldl"]
    p = subprocess.run(cmd, stdout=subprocess.PIPE, stderr=subprocess.STDOUT, text=True, errors="replace")
    if p.returncode != 0:
        return (flavour, [], 0, [], None, p.stdout[-6000:])
    env = dict(os.environ)
    env.update(vfcheck.SAN_ENV)
    env.pop("YOMM2_TRACE", None)
    if "tsan" in flavour:
        env["TSAN_OPTIONS"] = "halt_on_error=1:exitcode=66:second_deadlock_stack=1"
    try:
        r = subprocess.run([exe], stdout=subprocess.PIPE, stderr=subprocess.PIPE, text=True, errors="replace",
                           timeout=prog.timeout, env=env, cwd=workdir)
        out, err, rc = r.stdout, r.stderr, r.returncode
    except subprocess.TimeoutExpired:
        return (flavour, [], 0, [], "TIMEOUT", None)
    finally:
        try:
            os.unlink(exe)
        except OSError:
            pass
    fails, count, combos = [], 0, []
    for line in out.splitlines():
        m = re.match(r"VFB-FAIL key=(\S+) detail=(.*)", line)
        if m:
            fails.append((m.group(1), m.group(2)))
        m = re.match(r"VFB-COUNT (\d+)", line)
        if m:
            count += int(m.group(1))
        m = re.match(r"VFB-COMBO (.*)", line)
        if m:
            combos.append(m.group(1))
    crash = None
    if rc != 0 and not fails:
        head = re.search(r"(ERROR: AddressSanitizer: [\w-]+|(?:WARNING|ERROR): ThreadSanitizer: [\w -]+|runtime error: [^\n]{0,100}|Assertion [^\n]{0,100}failed)", err)
        crash = "exit %s %s\n%s" % (rc, head.group(1) if head else "", (out[-1500:] + "\n" + err[-4000:]))
    elif rc == 0 and "VFB-DONE" not in out:
        crash = "program ended without VFB-DONE\n" + out[-1500:] + err[-2000:]
    return (flavour, fails, count, combos, crash, None)


def run_programs(check, programs, max_parallel=12, only_prefix=None, remap_prefix=None):
    """compiles and runs the programs; fills the check's extra_* fields"""
    work = tempfile.mkdtemp(prefix="vfb-%s-" % check.prop, dir="/tmp")
    try:
        jobs = [(p, f) for p in programs for f in p.flavours]
        with ThreadPoolExecutor(max_workers=max_parallel) as ex:
            results = list(ex.map(lambda j: (j[0], _run_one(j[0], j[1], work)), jobs))
        for prog, (flavour, fails, count, combos, crash, cerr) in results:
            check.extra_evaluations += count
            check.extra_hist["programs." + flavour] = check.extra_hist.get("programs." + flavour, 0) + 1
            for c in combos:
                check.extra_distinct.add(c)
            bad = []
            if cerr is not None:
                key = prog.may_not_compile_key or ("%s:program-does-not-compile" % check.prop)
                bad.append((key, cerr))
            if crash == "TIMEOUT":
                check.extra_failures.append("program %s (%s) timed out: inconclusive" % (prog.name, flavour))
            elif crash:
                head = re.search(r"(ERROR: AddressSanitizer: [\w-]+|(?:WARNING|ERROR): ThreadSanitizer: [\w -]+|runtime error: [^\n]{0,80}|Assertion [^\n]{0,80}failed)", crash)
                k = re.sub(r"[^A-Za-z0-9_.-]+", "_", head.group(1))[:70] if head else "abnormal-exit"
                bad.append(("%s:program-crash:%s" % (check.prop, k), crash))
            for key, detail in fails:
                if remap_prefix:
                    # every failure of these programs counts for the running property
                    bad.append((remap_prefix + key.replace(":", "/", 1), detail))
                    continue
                if only_prefix and not key.startswith(only_prefix + ":"):
                    # another property's statement: that property's own check reports it
                    check.extra_hist["other-property-failures-seen"] = check.extra_hist.get("other-property-failures-seen", 0) + 1
                    continue
                bad.append((key, detail))
            if bad:
                wdir = check.outdir
                src = os.path.join(wdir, "%s.cpp" % prog.name)
                with open(src, "w") as f:
                    f.write(prog.source)
                wit = os.path.join(wdir, "%s-%s.json" % (prog.name, flavour))
                with open(wit, "w") as f:
                    f.write(json.dumps({"property": check.prop, "program": src, "flavour": flavour,
                                        "failures": [{"key": k, "detail": d[:3000]} for k, d in bad]}) + "\n")
                for key, _ in bad:
                    check.extra_violations.append((key, wit))
            if len(check.extra_samples) < 3 and combos:
                check.extra_samples.append({"program": prog.name, "flavour": flavour, "checks": count, "combinations": combos[:6]})
    finally:
        shutil.rmtree(work, ignore_errors=True)


def replay(prop, w):
    """bin/check <prop> --replay <witness>: recompile and rerun the recorded program"""
    src = w["program"]
    if not os.path.exists(src):
        print("witness program missing:", src)
        return 2
    prog = Program(os.path.basename(src)[:-4], open(src).read(), flavours=[w.get("flavour", "clang-asan")])
    work = tempfile.mkdtemp(prefix="vfb-replay-", dir="/tmp")
    try:
        flavour, fails, count, combos, crash, cerr = _run_one(prog, prog.flavours[0], work)
    finally:
        shutil.rmtree(work, ignore_errors=True)
    rc = 0
    if cerr is not None:
        print("VIOLATION property=%s replay=%s key=%s:program-does-not-compile (reproduced)" % (prop, src, prop))
        rc = 1
    if crash:
        print("VIOLATION property=%s replay=%s key=%s:program-crash (reproduced)" % (prop, src, prop))
        rc = 1
    for key, detail in fails:
        print("VIOLATION property=%s replay=%s key=%s (reproduced: %s)" % (prop, src, key, detail[:200]))
        rc = 1
    if rc == 0:
        print("replay: the recorded program no longer violates property %s" % prop)
    return rc


# ---------------------------------------------------------------------------------------------
# common prelude

PRELUDE = r'''
#include <yorel/yomm2/keywords.hpp>
#include <yorel/yomm2/templates.hpp>
#include <cstdio>
#include <cstring>
#include <memory>
#include <string>
#include <typeinfo>
#include <vector>
#include <set>
#include <map>
using namespace yorel::yomm2;

static long g_checks = 0;
static int g_fails = 0;
#define CHECK(cond, key, ...)                                                  \
    do {                                                                       \
        ++g_checks;                                                            \
        if (!(cond)) {                                                         \
            if (++g_fails < 40) {                                              \
                printf("VFB-FAIL key=%s detail=", key);                        \
                printf(__VA_ARGS__);                                           \
                printf("\n");                                                  \
            }                                                                  \
        }                                                                      \
    } while (0)
'''

EPILOGUE = r'''
    printf("VFB-COUNT %ld\n", g_checks);
    printf("VFB-DONE\n");
    fflush(stdout);
    return g_fails ? 1 : 0;
'''

// C01, C02, C03, C04, C17: one registry per case, materialised in one or two
// policy worlds, real update, real calls, compared with the oracle.
#include "monitors.hpp"

namespace vf {

int prop_dispatch(Run& run) {
    unsigned flags = 0;
    GenProfile prof;
    bool thorough = run.tier == "thorough";
    int max_tuples = thorough ? 4096 : 1024;
    int aborts_per_case = 0;
    if (run.prop == "C01") {
        flags = MON_SELECT;
        prof.max_classes = thorough ? 40 : 16;
        prof.max_defs = thorough ? 12 : 7;
        prof.lattice_bias = true;
    } else if (run.prop == "C02") {
        flags = MON_ERRORS | MON_ABORTS;
        prof.max_classes = thorough ? 24 : 12;
        prof.max_defs = 4;
        aborts_per_case = 1;
    } else if (run.prop == "C03") {
        flags = MON_NEXT;
        prof.max_classes = thorough ? 32 : 14;
        prof.max_defs = thorough ? 12 : 8;
        prof.lattice_bias = true;
    } else if (run.prop == "C04") {
        flags = MON_WALK;
        prof.max_classes = thorough ? 40 : 18;
        prof.max_methods = thorough ? 12 : 7;
        prof.max_defs = 3;
        prof.lattice_bias = true;
    } else if (run.prop == "C17") {
        flags = MON_REPORT;
        prof.max_classes = thorough ? 20 : 10;
        prof.abstract_flags = true;
        prof.max_defs = 6;
    }
    auto ws = suitable_worlds(run, false, true);
    if (ws.empty())
        return 2;
    for (long cs = 0; cs < run.cases; ++cs) {
        if (run.only_case >= 0 && cs != run.only_case)
            continue;
        run.cur_case = cs;
        Rng rng(run.seed, (uint64_t)cs);
        Registry base;
        GenProfile pcase = prof;
        if ((flags & (MON_SELECT | MON_NEXT | MON_WALK)) && rng.chance(1, thorough ? 25 : 60)) {
            // beyond one machine word: > 64 classes, > 64 slots in a v-table, > 64 definitions of a method
            pcase.big = true;
            pcase.min_classes = 66;
            pcase.max_classes = MAXC - 4;
            pcase.max_methods = 44;
            pcase.max_defs = 6;
            run.count("big-registries");
        }
        if (!pcase.big && rng.chance(1, thorough ? 20 : 40)) {
            pcase.many_defs = true; // also for C02 and C17: the report over masks wider than a word
            pcase.min_classes = std::max(pcase.min_classes, 8);
            pcase.max_methods = std::max(pcase.max_methods, 2);
            run.count("registries-with-a-method-of>64-definitions");
        }
        gen_graph(rng, pcase, base);
        Oracle o(base);
        gen_methods(rng, pcase, base, o);
        int nworlds = run.prop == "C17" ? 1 : 2;
        for (int k = 0; k < nworlds; ++k) {
            IWorld* w = k == 0 ? ws[(size_t)((cs + run.seed) % ws.size())] : ws[rng.below(ws.size())];
            Registry r = base;
            int flavour = pick_flavour(rng, w->caps());
            assign_ids(rng, r, flavour, w->caps().projection ? MAXALIAS : 1);
            int pres = (int)rng.below(NPRES);
            if (run.extra_val("pres", -1) >= 0)
                pres = (int)run.extra_val("pres", -1);
            gen_presentation(rng, r, o, pres);
            r.static_class[0] = (int)rng.below(r.n);
            r.static_class[1] = (int)rng.below(r.n);
            set_current_case(run, w->name(), dump_registry(r));
            if (rng.chance(3, 4))
                w->hard_reset();
            set_stage("materialize");
            w->materialize(r);
            if (flags & MON_NEXT)
                for (auto& me : r.methods)
                    for (size_t d = 0; d < me.defs.size(); ++d)
                        w->poison_next(me.shape * NINST + me.inst, (int)d);
            CaseCtx c{run, *w, r, o, rng, ""};
            UpdateResult u;
            if (!do_update(c, u, run.prop.c_str()))
                continue;
            // what makes this case non-trivial for the property
            bool nontrivial = false;
            int incomparable = count_incomparable(r, o);
            if (run.prop == "C01" || run.prop == "C03")
                nontrivial = incomparable > 0 || has_mi(r);
            else if (run.prop == "C02")
                nontrivial = true; // counted below by erroring calls
            else if (run.prop == "C04")
                nontrivial = has_mi(r) && r.methods.size() >= 2;
            else
                nontrivial = !r.methods.empty();
            long before_err = run.hist["calls.no_definition"] + run.hist["calls.ambiguous"];
            run.count(std::string("world.") + w->name());
            run.count(std::string("gen.") + r.gen);
            run.count(std::string("presentation.") + r.pres);
            run.count(std::string("ids.") + r.idflavour);
            if (has_mi(r))
                run.count("graphs.with-multiple-inheritance");
            if (pcase.big) {
                size_t maxslot = 0, maxdefs = 0;
                for (size_t m = 0; m < r.methods.size(); ++m) {
                    MethodView mv = w->method(r, (int)m);
                    for (size_t i = 0; i < r.methods[m].vp.size(); ++i)
                        maxslot = std::max(maxslot, mv.slots_strides[i]);
                    maxdefs = std::max(maxdefs, r.methods[m].defs.size());
                }
                if (maxslot >= 64)
                    run.count("big.registries-with-a-slot-number>=64");
                if (maxdefs > 64)
                    run.count("big.registries-with-a-method-of>64-definitions");
                if (r.n > 64)
                    run.count("big.registries-with>64-classes");
            }
            bool stop = false;
            if (flags & (MON_SELECT | MON_ERRORS))
                stop = monitor_calls(c, u, flags, pcase.big ? 256 : max_tuples);
            if (!stop && (flags & MON_NEXT))
                stop = monitor_next(c, run.prop.c_str());
            if (!stop && (flags & MON_WALK))
                stop = monitor_walk(c, u, run.prop.c_str());
            if (!stop && (flags & MON_REPORT))
                stop = monitor_report(c, u);
            if (!stop && (flags & MON_ABORTS) && aborts_per_case && rng.chance(1, 4))
                stop = monitor_aborts(c, aborts_per_case);
            if (run.prop == "C02")
                nontrivial = run.hist["calls.no_definition"] + run.hist["calls.ambiguous"] > before_err;
            if (nontrivial)
                run.distinct.insert(registry_hash(r) ^ (std::hash<std::string>()(w->name()) * 31));
            if (run.samples.size() < 2 && nontrivial)
                run.sample("{\"world\":" + jstr(w->name()) + ",\"registry\":" + dump_registry(r) + "}");
            if (stop)
                return 1;
        }
    }
    return run.violations.empty() ? 0 : 1;
}

} // namespace vf

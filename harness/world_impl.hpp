// World<P>: the harness' view of one policy.  Included once per policy TU.
#ifndef VF_WORLD_IMPL_HPP
#define VF_WORLD_IMPL_HPP

#include "policies.hpp"
#include "world.hpp"

#include <yorel/yomm2/decode.hpp>

#include <boost/mp11.hpp>

namespace vf {

namespace y2 = yorel::yomm2;
using y2::virtual_;
using y2::virtual_ptr;
using y2::detail::class_info;
using y2::detail::definition_info;
using y2::detail::method_info;

// generator glue (gen_glue.cpp; generator.hpp defines non-inline functions and
// can only be included in one translation unit)
template<class P>
std::string glue_write_static_offsets();
template<class P>
std::string glue_write_static_offsets_after_encode(const generic_compiler& c, const std::string& policy);
std::string glue_encode(const generic_compiler& c, const std::string& policy);
template<class P>
std::string glue_fwd_policy(bool via_wrapper);

// ---------------------------------------------------------------------------
// shapes

template<char... Cs>
struct shape {};

using shape_list = boost::mp11::mp_list<
    shape<'R'>, shape<'C', 'i'>, shape<'i', 'P'>, shape<'s', 'Q', 'd'>, shape<'K'>, shape<'H', 'i'>,
    shape<'R', 'C'>, shape<'R', 'i', 'P'>, shape<'Q', 'K'>, shape<'i', 'S', 'T'>, shape<'X', 'd', 'J'>,
    shape<'R', 'P', 'C'>, shape<'d', 'Q', 's', 'K', 'i'>, shape<'R', 'i', 'C', 'd', 'P'>,
    shape<'Q', 'Q', 'Q'>, shape<'R', 'C', 'P', 'Q'>, shape<'i', 'R', 'K', 'T', 'H', 's'>>;

constexpr int NSHAPES = boost::mp11::mp_size<shape_list>::value;

template<char... Cs>
std::string shape_sig(shape<Cs...>) {
    const char s[] = {Cs..., 0};
    return s;
}

constexpr bool is_virtual_kind(char c) {
    return c >= 'A' && c <= 'Z';
}

template<char C, class P>
struct ptype;
template<class P>
struct ptype<'R', P> {
    using type = virtual_<Node&>;
};
template<class P>
struct ptype<'C', P> {
    using type = virtual_<const Node&>;
};
template<class P>
struct ptype<'X', P> {
    using type = virtual_<Node&&>;
};
template<class P>
struct ptype<'P', P> {
    using type = virtual_<Node*>;
};
template<class P>
struct ptype<'S', P> {
    using type = virtual_<std::shared_ptr<Node>>;
};
template<class P>
struct ptype<'T', P> {
    using type = virtual_<const std::shared_ptr<Node>&>;
};
template<class P>
struct ptype<'Q', P> {
    using type = virtual_ptr<Node, P>;
};
template<class P>
struct ptype<'K', P> {
    using type = const virtual_ptr<Node, P>&;
};
template<class P>
struct ptype<'H', P> {
    using type = virtual_ptr<std::shared_ptr<Node>, P>;
};
template<class P>
struct ptype<'J', P> {
    using type = const virtual_ptr<std::shared_ptr<Node>, P>&;
};
template<class P>
struct ptype<'i', P> {
    using type = int;
};
template<class P>
struct ptype<'d', P> {
    using type = double;
};
template<class P>
struct ptype<'s', P> {
    using type = const std::string&;
};

template<int S, int K>
struct key {
    static constexpr int uid = S * NINST + K;
};

template<class P, class Shape, int S, int K>
struct meth;
template<class P, char... Cs, int S, int K>
struct meth<P, shape<Cs...>, S, K> {
    using type = y2::method<key<S, K>, int(typename ptype<Cs, P>::type...), P>;
};

} // namespace vf

// Instance 2 of every shape dispatches through static offsets (the arrays are
// filled at run time, from the installed values or from the generator's text).
namespace yorel {
namespace yomm2 {
namespace detail {
template<int S, class Sig, class P>
struct static_offsets<method<vf::key<S, 2>, Sig, P>> {
    static inline std::size_t slots[vf::MAXAR];
    static inline std::size_t strides[vf::MAXAR];
};
} // namespace detail
} // namespace yomm2
} // namespace yorel

namespace vf {

// ---------------------------------------------------------------------------
// observation of arguments inside definition bodies

inline uint64_t observe(const Node& n) {
    return reinterpret_cast<uint64_t>(&n);
}
inline uint64_t observe(const Node* n) {
    return reinterpret_cast<uint64_t>(n);
}
inline uint64_t observe(const std::shared_ptr<Node>& p) {
    return reinterpret_cast<uint64_t>(p.get());
}
template<class P>
inline uint64_t observe(const virtual_ptr<Node, P>& p) {
    return reinterpret_cast<uint64_t>(p.get());
}
template<class P>
inline uint64_t observe(const virtual_ptr<std::shared_ptr<Node>, P>& p) {
    return reinterpret_cast<uint64_t>(p.get().get());
}
inline uint64_t observe(int v) {
    return (uint64_t)(int64_t)v;
}
inline uint64_t observe(double v) {
    uint64_t b;
    memcpy(&b, &v, 8);
    return b;
}
inline uint64_t observe(const std::string& s) {
    return std::hash<std::string>()(s) ^ (uint64_t)s.size();
}

template<class M, int D>
struct body;

template<class Key, class P, class... A, int D>
struct body<y2::method<Key, int(A...), P>, D> {
    static int fn(y2::detail::remove_virtual<A>... a) {
        Event e;
        e.muid = Key::uid;
        e.def = D;
        e.nargs = sizeof...(A);
        int i = 0;
        ((e.obs[i++] = observe(a)), ...);
        t_events.push_back(e);
        return Key::uid * 100 + D;
    }
};

// ---------------------------------------------------------------------------
// argument holders

struct CallCtx {
    Node* obj[MAXPARAM] = {};   // Node sub-object to pass (already route-adjusted)
    NodeD* objd[MAXPARAM] = {}; // the NodeD object when the route needs one
    std::shared_ptr<Node> sp[MAXPARAM];
    std::shared_ptr<NodeD> spd[MAXPARAM];
    int route[MAXPARAM] = {};
    int cls[MAXPARAM] = {};
    const void* held = nullptr;  // World<P>::held (virtual_ptr per class)
    const void* held_s = nullptr;
    int ival[MAXPARAM] = {};
    double dval[MAXPARAM] = {};
    std::string sval[MAXPARAM];
    uint64_t expect[MAXPARAM] = {};
    const std::uintptr_t* vptr_seen[MAXPARAM] = {}; // v-table pointer held by a virtual_ptr argument
    bool has_vptr[MAXPARAM] = {};
};

// thrown by the harness itself when a virtual_ptr argument carries a v-table pointer other than
// its pointee's, or when copying a virtual_ptr changed the pointer it was copied from
struct BadVptr {
    int param;
    bool copy_changed_source = false;
};

template<class VP>
void source_unchanged(const VP& src, const void* obj, const std::uintptr_t* vptr, int i) {
    if (static_cast<const void*>(&*src) != obj || src._vptr() != vptr)
        throw BadVptr{i, true};
}
template<class VP>
const void* pointee_of(const VP& v) {
    return static_cast<const void*>(&*v);
}

template<class P>
virtual_ptr<Node, P> make_vp(CallCtx& c, int i) {
    using VP = virtual_ptr<Node, P>;
    switch (c.route[i]) {
    case RT_HELD:
        return (*static_cast<const std::vector<VP>*>(c.held))[c.cls[i]];
    case RT_FINAL:
        return VP::final(*c.obj[i]);
    case RT_CONV_COPY: {
        virtual_ptr<NodeD, P> d(*c.objd[i]);
        const void* o0 = pointee_of(d);
        auto v0 = d._vptr();
        if (c.ival[0] & 1) {
            const virtual_ptr<NodeD, P>& cd = d;
            VP v(cd);
            source_unchanged(d, o0, v0, i);
            return v;
        }
        VP v(d);
        source_unchanged(d, o0, v0, i);
        return v;
    }
    case RT_CONV_MOVE: {
        virtual_ptr<NodeD, P> d(*c.objd[i]);
        VP v(std::move(d));
        return v;
    }
    case RT_COPY: {
        VP a(*c.obj[i]);
        const void* o0 = pointee_of(a);
        auto v0 = a._vptr();
        VP b(a);
        source_unchanged(a, o0, v0, i);
        return b;
    }
    case RT_MOVE: {
        VP a(*c.obj[i]);
        VP b(std::move(a));
        return b;
    }
    default:
        return VP(*c.obj[i]);
    }
}

template<class P>
virtual_ptr<std::shared_ptr<Node>, P> make_vsp(CallCtx& c, int i) {
    using VP = virtual_ptr<std::shared_ptr<Node>, P>;
    using VPD = virtual_ptr<std::shared_ptr<NodeD>, P>;
    switch (c.route[i]) {
    case RT_HELD:
        return (*static_cast<const std::vector<VP>*>(c.held_s))[c.cls[i]];
    case RT_FINAL: {
        std::shared_ptr<Node> tmp = c.sp[i];
        return VP::final(std::move(tmp));
    }
    case RT_CONV_COPY: {
        VPD d(c.spd[i]);
        const void* o0 = d.get().get();
        auto v0 = d._vptr();
        long uc = d.get().use_count();
        VP v(d);
        // a copy shares ownership with its source, which keeps pointing at the object
        // (the objects are shared with other threads in C16: the use count may only be compared
        // with a lower bound - source and copy both own the object)
        const void* o1 = d.get().get();
        long uc1 = d.get().use_count();
        if (o1 != o0 || d._vptr() != v0 || uc1 < 2 || uc < 1)
            throw BadVptr{i, true};
        return v;
    }
    case RT_CONV_MOVE: {
        VPD d(c.spd[i]);
        VP v(std::move(d));
        return v;
    }
    case RT_COPY: {
        VP a(c.sp[i]);
        const void* o0 = a.get().get();
        auto v0 = a._vptr();
        long uc = a.get().use_count();
        VP b(a);
        const void* o1 = a.get().get();
        long uc1 = a.get().use_count();
        if (o1 != o0 || a._vptr() != v0 || uc1 < 2 || uc < 1)
            throw BadVptr{i, true};
        return b;
    }
    case RT_MOVE: {
        std::shared_ptr<Node> tmp = c.sp[i];
        VP a(std::move(tmp));
        VP b(std::move(a));
        return b;
    }
    default:
        return VP(c.sp[i]);
    }
}

template<char C, class P, std::size_t I>
struct holder;

#define VF_EXPECT_OBJ                                                                                                  \
    uint64_t expect() const {                                                                                          \
        return reinterpret_cast<uint64_t>(p);                                                                          \
    }

template<class P, std::size_t I>
struct holder<'R', P, I> {
    Node* p;
    explicit holder(CallCtx& c) : p(c.obj[I]) {
    }
    Node& get() {
        return *p;
    }
    const Node& rarg() {
        return *p;
    }
    VF_EXPECT_OBJ
};
template<class P, std::size_t I>
struct holder<'C', P, I> {
    Node* p;
    explicit holder(CallCtx& c) : p(c.obj[I]) {
    }
    const Node& get() {
        return *p;
    }
    const Node& rarg() {
        return *p;
    }
    VF_EXPECT_OBJ
};
template<class P, std::size_t I>
struct holder<'X', P, I> {
    Node* p;
    explicit holder(CallCtx& c) : p(c.obj[I]) {
    }
    Node&& get() {
        return std::move(*p);
    }
    const Node& rarg() {
        return *p;
    }
    VF_EXPECT_OBJ
};
template<class P, std::size_t I>
struct holder<'P', P, I> {
    Node* p;
    explicit holder(CallCtx& c) : p(c.obj[I]) {
    }
    Node* get() {
        return p;
    }
    const Node& rarg() {
        return *p;
    }
    VF_EXPECT_OBJ
};
template<class P, std::size_t I>
struct holder<'S', P, I> {
    Node* p;
    std::shared_ptr<Node> sp;
    explicit holder(CallCtx& c) : p(c.obj[I]), sp(c.sp[I]) {
    }
    std::shared_ptr<Node> get() {
        return sp;
    }
    const Node& rarg() {
        return *p;
    }
    VF_EXPECT_OBJ
};
template<class P, std::size_t I>
struct holder<'T', P, I> {
    Node* p;
    std::shared_ptr<Node> sp;
    explicit holder(CallCtx& c) : p(c.obj[I]), sp(c.sp[I]) {
    }
    const std::shared_ptr<Node>& get() {
        return sp;
    }
    const Node& rarg() {
        return *p;
    }
    VF_EXPECT_OBJ
};
template<class P, std::size_t I>
struct holder<'Q', P, I> {
    Node* p;
    virtual_ptr<Node, P> vp;
    explicit holder(CallCtx& c) : p(c.obj[I]), vp(make_vp<P>(c, I)) {
        c.vptr_seen[I] = vp._vptr();
        c.has_vptr[I] = true;
    }
    virtual_ptr<Node, P> get() {
        return vp;
    }
    const virtual_ptr<Node, P>& rarg() {
        return vp;
    }
    VF_EXPECT_OBJ
};
template<class P, std::size_t I>
struct holder<'K', P, I> : holder<'Q', P, I> {
    using holder<'Q', P, I>::holder;
    const virtual_ptr<Node, P>& get() {
        return this->vp;
    }
};
template<class P, std::size_t I>
struct holder<'H', P, I> {
    Node* p;
    virtual_ptr<std::shared_ptr<Node>, P> vp;
    explicit holder(CallCtx& c) : p(c.obj[I]), vp(make_vsp<P>(c, I)) {
        c.vptr_seen[I] = vp._vptr();
        c.has_vptr[I] = true;
    }
    virtual_ptr<std::shared_ptr<Node>, P> get() {
        return vp;
    }
    const virtual_ptr<std::shared_ptr<Node>, P>& rarg() {
        return vp;
    }
    VF_EXPECT_OBJ
};
template<class P, std::size_t I>
struct holder<'J', P, I> : holder<'H', P, I> {
    using holder<'H', P, I>::holder;
    const virtual_ptr<std::shared_ptr<Node>, P>& get() {
        return this->vp;
    }
};
template<class P, std::size_t I>
struct holder<'i', P, I> {
    int v;
    explicit holder(CallCtx& c) : v(c.ival[I]) {
    }
    int get() {
        return v;
    }
    const int& rarg() {
        return v;
    }
    uint64_t expect() const {
        return observe(v);
    }
};
template<class P, std::size_t I>
struct holder<'d', P, I> {
    double v;
    explicit holder(CallCtx& c) : v(c.dval[I]) {
    }
    double get() {
        return v;
    }
    const double& rarg() {
        return v;
    }
    uint64_t expect() const {
        return observe(v);
    }
};
template<class P, std::size_t I>
struct holder<'s', P, I> {
    const std::string* v;
    explicit holder(CallCtx& c) : v(&c.sval[I]) {
    }
    const std::string& get() {
        return *v;
    }
    const std::string& rarg() {
        return *v;
    }
    uint64_t expect() const {
        return observe(*v);
    }
};

template<class P, class Shape, class Seq>
struct holders;
template<class P, char... Cs, std::size_t... Is>
struct holders<P, shape<Cs...>, std::index_sequence<Is...>> : holder<Cs, P, Is>... {
    explicit holders(CallCtx& c) : holder<Cs, P, Is>(c)... {
        ((c.expect[Is] = static_cast<holder<Cs, P, Is>&>(*this).expect()), ...);
    }
};


struct MethodOps {
    int shape, inst;
    method_info* info;
    std::size_t* slots_strides;
    void* body[MAXDEF_BIG] = {};
    std::size_t* static_slots = nullptr;
    std::size_t* static_strides = nullptr;
    int (*invoke)(CallCtx&, const std::uintptr_t* const* expect_vptr);
    void* (*resolve)(CallCtx&);
};

template<class P, class M, class Shape, class Seq>
struct invoker;
template<class P, class M, char... Cs, std::size_t... Is>
struct invoker<P, M, shape<Cs...>, std::index_sequence<Is...>> {
    using H = holders<P, shape<Cs...>, std::index_sequence<Is...>>;
    static int invoke(CallCtx& c, const std::uintptr_t* const* expect_vptr) {
        H hs(c);
        if (expect_vptr)
            for (std::size_t i = 0; i < sizeof...(Cs); ++i)
                if (c.has_vptr[i] && (c.vptr_seen[i] != expect_vptr[i] || c.vptr_seen[i] == nullptr))
                    throw BadVptr{(int)i};
        return M::fn(static_cast<holder<Cs, P, Is>&>(hs).get()...);
    }
    static void* resolve(CallCtx& c) {
        H hs(c);
        return reinterpret_cast<void*>(M::fn.resolve(static_cast<holder<Cs, P, Is>&>(hs).rarg()...));
    }
};

template<class M, int... D>
void fill_bodies(void** out, std::integer_sequence<int, D...>) {
    ((out[D] = reinterpret_cast<void*>(&body<M, D>::fn)), ...);
}

template<class P, class Shape, int S, int K>
MethodOps make_ops() {
    using M = typename meth<P, Shape, S, K>::type;
    constexpr std::size_t np = boost::mp11::mp_size<typename M::declared_argument_types>::value;
    using Inv = invoker<P, M, Shape, std::make_index_sequence<np>>;
    MethodOps o;
    o.shape = S;
    o.inst = K;
    o.info = &M::fn;
    o.slots_strides = M::slots_strides;
    fill_bodies<M>(o.body, std::make_integer_sequence<int, (K == 0 && (S == 0 || S == 6)) ? MAXDEF_BIG : MAXDEF>());
    o.invoke = &Inv::invoke;
    o.resolve = &Inv::resolve;
    if constexpr (y2::detail::has_static_offsets<M>::value) {
        o.static_slots = y2::detail::static_offsets<M>::slots;
        o.static_strides = y2::detail::static_offsets<M>::strides;
    }
    return o;
}

template<class P, int... S>
void make_all_ops(std::vector<MethodOps>& out, std::integer_sequence<int, S...>) {
    (
        [&] {
            using Sh = boost::mp11::mp_at_c<shape_list, S>;
            out.push_back(make_ops<P, Sh, S, 0>());
            out.push_back(make_ops<P, Sh, S, 1>());
            out.push_back(make_ops<P, Sh, S, 2>());
        }(),
        ...);
}

// ---------------------------------------------------------------------------
// deferred ids: function pointers resolved by update

extern type_id g_deferred_ids[MAXC * MAXALIAS];
template<int I>
type_id deferred_id_fn() {
    return g_deferred_ids[I];
}
template<int... I>
void fill_deferred_fns(type_id* out, std::integer_sequence<int, I...>) {
    // (a braced list, not a fold expression: clang limits the nesting of folds to 256 operands)
    const type_id fns[] = {reinterpret_cast<type_id>(&deferred_id_fn<I>)...};
    for (std::size_t k = 0; k < sizeof...(I); ++k)
        out[k] = fns[k];
}

// ---------------------------------------------------------------------------

template<class T, class = void>
struct has_error_member : std::false_type {};
template<class T>
struct has_error_member<T, std::void_t<decltype(T::error = y2::error_handler_type())>> : std::true_type {};
template<class T, class = void>
struct has_call_error_member : std::false_type {};
template<class T>
struct has_call_error_member<T, std::void_t<decltype(T::call_error = nullptr)>> : std::true_type {};

// ---------------------------------------------------------------------------
// checked-iterator proxies for decode_dispatch_data<Policy, Data> (C13): one
// byte buffer models the emitted structure; every dereference is bounds checked
// per array, and a store into the decoded v-tables must never clobber an
// encoded code that has not been fetched yet.

struct DecodeMonitor {
    char* base = nullptr;
    size_t enc_slots_off = 0, enc_slots_end = 0, enc_vtbls_off = 0, enc_vtbls_end = 0;
    size_t dec_end = 0, dtbl_off = 0, dtbl_end = 0;
    size_t enc_read_pos = 0; // offset of the next encoded v-table code not yet fetched
    std::string error;
    std::uintptr_t dummy = 0;
    void fail(const std::string& e) {
        if (error.empty())
            error = e;
    }
};

enum { REG_ENC_SLOTS, REG_ENC_VTBLS, REG_DEC_VTBLS, REG_DTBLS };

template<class T, int Region>
struct ChkIter {
    using iterator_category = std::input_iterator_tag;
    using value_type = T;
    using difference_type = std::ptrdiff_t;
    using pointer = T*;
    using reference = T&;
    DecodeMonitor* mon = nullptr;
    T* p = nullptr;

    T& operator*() const {
        size_t off = reinterpret_cast<char*>(p) - mon->base;
        bool under = reinterpret_cast<char*>(p) < mon->base;
        size_t lo, hi;
        const char* name;
        switch (Region) {
        case REG_ENC_SLOTS:
            lo = mon->enc_slots_off, hi = mon->enc_slots_end, name = "encoded.slots";
            break;
        case REG_ENC_VTBLS:
            lo = mon->enc_vtbls_off, hi = mon->enc_vtbls_end, name = "encoded.vtbls";
            break;
        case REG_DEC_VTBLS:
            lo = 0, hi = mon->dec_end, name = "vtbls";
            break;
        default:
            lo = mon->dtbl_off, hi = mon->dtbl_end, name = "dtbls";
            break;
        }
        if (under || off < lo || off + sizeof(T) > hi) {
            mon->fail(std::string("out-of-bounds-access-to-") + name);
            return *reinterpret_cast<T*>(&mon->dummy);
        }
        if (Region == REG_ENC_VTBLS) {
            if (off + sizeof(T) > mon->enc_read_pos)
                mon->enc_read_pos = off + sizeof(T);
        }
        if (Region == REG_DEC_VTBLS) {
            // the cell about to be written must not cover unread encoded codes
            if (off < mon->enc_vtbls_end && off + sizeof(T) > mon->enc_read_pos && mon->enc_read_pos < mon->enc_vtbls_end)
                mon->fail("decoded-cell-overwrites-unread-code");
        }
        return *p;
    }
    ChkIter& operator++() {
        ++p;
        return *this;
    }
    ChkIter operator++(int) {
        ChkIter t = *this;
        ++p;
        return t;
    }
    ChkIter& operator+=(std::ptrdiff_t n) {
        p += n;
        return *this;
    }
    ChkIter operator+(std::ptrdiff_t n) const {
        return ChkIter{mon, p + n};
    }
    ChkIter operator-(std::ptrdiff_t n) const {
        return ChkIter{mon, p - n};
    }
    operator T*() const {
        return p;
    }
    explicit operator char*() const {
        return reinterpret_cast<char*>(p);
    }
    bool operator==(const ChkIter& o) const {
        return p == o.p;
    }
    bool operator!=(const ChkIter& o) const {
        return p != o.p;
    }
};

struct ProxyData {
    struct {
        ChkIter<uint16_t, REG_ENC_SLOTS> slots;
        ChkIter<uint16_t, REG_ENC_VTBLS> vtbls;
    } encoded;
    ChkIter<std::uintptr_t, REG_DEC_VTBLS> vtbls;
    ChkIter<std::uintptr_t, REG_DTBLS> dtbls;
};

// a re-used class_info stands for a freshly constructed registration object
template<class CI>
auto fresh_class_info(CI& ci, int) -> decltype(ci.is_type_resolved = false, void()) {
    ci.is_type_resolved = false;
}
template<class CI>
void fresh_class_info(CI&, long) {
}

template<class P>
struct Store {
    static inline class_info recs[MAXREC];
    static inline definition_info defs[NSHAPES * NINST][MAXDEF_BIG];
    static inline void* next_slot[NSHAPES * NINST][MAXDEF_BIG];
    static inline std::uintptr_t* vptr_slots[MAXC];
};

template<class P>
struct World : IWorld {
    const char* name_;
    Caps caps_;
    std::vector<MethodOps> ops;
    std::vector<std::vector<type_id>> base_store;
    std::vector<type_id> mvp_store[NSHAPES * NINST];
    std::vector<type_id> dvp_store[NSHAPES * NINST][MAXDEF_BIG];
    std::vector<bool> rec_live;
    std::shared_ptr<Node> objs[MAXC][MAXALIAS];
    std::shared_ptr<NodeD> objsd[MAXC][MAXALIAS];
    type_id deferred_fns[MAXC * MAXALIAS];
    std::vector<virtual_ptr<Node, P>> held;
    std::vector<virtual_ptr<std::shared_ptr<Node>, P>> held_s;
    y2::error_handler_type default_error;
    y2::method_call_error_handler default_call_error = nullptr;
    int static_class[2] = {-1, -1};
    static constexpr bool deferred = std::is_base_of_v<yp::deferred_static_rtti, P>;

    World(const char* name, Caps caps) : name_(name), caps_(caps) {
        make_all_ops<P>(ops, std::make_integer_sequence<int, NSHAPES>());
        for (int s = 0; s < NSHAPES; ++s) {
            if (std::string(g_shapes[s].sig) != sig_of(s)) {
                fprintf(stderr, "harness: shape table mismatch at %d\n", s);
                _exit(2);
            }
        }
        caps_.hash = P::template has_facet<yp::type_hash>;
        caps_.checked = P::template has_facet<yp::runtime_checks>;
        caps_.indirect = P::template has_facet<yp::indirect_vptr>;
        caps_.deferred = deferred;
        caps_.vectored = has_error_member<P>::value;
        caps_.call_error = has_call_error_member<P>::value;
        if constexpr (has_error_member<P>::value)
            default_error = P::error;
        if constexpr (has_call_error_member<P>::value)
            default_call_error = P::call_error;
        fill_deferred_fns(deferred_fns, std::make_integer_sequence<int, MAXC * MAXALIAS>());
        // the method objects registered themselves at static-init time
        P::methods.clear();
        P::classes.clear();
        set_handler(H_THROW);
    }

    template<int... S>
    static std::string sig_at(int s, std::integer_sequence<int, S...>) {
        std::string r;
        ((s == S ? (void)(r = shape_sig(boost::mp11::mp_at_c<shape_list, S>())) : (void)0), ...);
        return r;
    }
    static std::string sig_of(int s) {
        return sig_at(s, std::make_integer_sequence<int, NSHAPES>());
    }

    const char* name() const override {
        return name_;
    }
    Caps caps() const override {
        return caps_;
    }

    MethodOps& op(const Registry& r, int m) {
        return ops[r.methods[m].shape * NINST + r.methods[m].inst];
    }
    static int uid(const Registry& r, int m) {
        return r.methods[m].shape * NINST + r.methods[m].inst;
    }

    // -- handlers ------------------------------------------------------------

    static void throwing_handler(const y2::error_type& e) {
        throw HarnessError{e};
    }
    static void throwing_call_error(const y2::method_call_error& e, std::size_t arity, type_id* types) {
        HarnessCallError x;
        x.code = e.code;
        x.arity = arity;
        for (std::size_t i = 0; i < 16; ++i)
            x.types[i] = i < arity ? types[i] : 0;
        throw x;
    }
    static void returning_handler(const y2::error_type& e) {
        auto* sp = shared_page();
        Outcome o = outcome_of(e);
        sp->kind = o.kind;
        sp->status = o.status;
        sp->arity = o.arity;
        for (int i = 0; i < 16; ++i)
            sp->types[i] = o.types[i];
        sp->etype = o.etype;
        sp->events = (int)t_events.size();
        sp->handler_calls = sp->handler_calls + 1;
    }

    void set_handler(HandlerMode m) override {
        if constexpr (has_error_member<P>::value) {
            switch (m) {
            case H_THROW:
                P::error = throwing_handler;
                break;
            case H_CALL_ERROR:
                P::error = default_error;
                if constexpr (has_call_error_member<P>::value)
                    P::call_error = throwing_call_error;
                break;
            case H_RETURN:
                P::error = returning_handler;
                break;
            case H_DEFAULT:
                P::error = default_error;
                if constexpr (has_call_error_member<P>::value)
                    P::call_error = default_call_error;
                break;
            }
        }
    }

    // -- catalogs ------------------------------------------------------------

    void soft_reset() override {
        for (auto& o : ops)
            o.info->specs.clear();
        P::methods.clear();
        P::classes.clear();
        for (int u = 0; u < NSHAPES * NINST; ++u)
            for (int d = 0; d < MAXDEF_BIG; ++d)
                Store<P>::defs[u][d].method = nullptr;
        rec_live.clear();
    }

    void hard_reset() override {
        soft_reset();
        for (int c = 0; c < MAXC; ++c)
            Store<P>::vptr_slots[c] = nullptr;
        P::template static_vptr<Node> = nullptr;
        P::template static_vptr<NodeD> = nullptr;
        std::vector<std::uintptr_t>().swap(P::dispatch_data);
        if constexpr (P::template has_facet<yp::external_vptr>)
            decltype(P::vptrs)().swap(P::vptrs);
        if constexpr (P::template has_facet<yp::indirect_vptr>)
            decltype(P::indirect_vptrs)().swap(P::indirect_vptrs);
        if constexpr (P::template has_facet<yp::type_hash>) {
            P::hash_mult = 0;
            P::hash_shift = 0;
            P::hash_length = 0;
            P::hash_min = 0;
            P::hash_max = 0;
        }
        if constexpr (P::template has_facet<yp::runtime_checks> && P::template has_facet<yp::type_hash>)
            std::vector<type_id>().swap(P::control);
        for (auto& o : ops)
            for (int i = 0; i < 2 * MAXAR - 1 && i < 2 * g_shapes[o.shape].arity - 1; ++i)
                o.slots_strides[i] = 0;
    }

    std::uintptr_t** slot_of(int cls) {
        if (cls == static_class[0])
            return &P::template static_vptr<Node>;
        if (cls == static_class[1])
            return &P::template static_vptr<NodeD>;
        return &Store<P>::vptr_slots[cls];
    }

    type_id stored_id(const Registry& r, int cls, int alias) {
        if constexpr (deferred) {
            g_deferred_ids[cls * MAXALIAS + alias] = r.ids[cls][alias];
            return deferred_fns[cls * MAXALIAS + alias];
        } else {
            return r.ids[cls][alias];
        }
    }

    void bind(const Registry& r) override {
        bind_statics(r);
    }

    void bind_statics(const Registry& r) {
        static_class[0] = r.static_class[0];
        static_class[1] = r.static_class[1];
        if (static_class[1] == static_class[0])
            static_class[1] = -1; // one slot per class; NodeD then has no registered static class
        // (written only when they change: several worlds are materialised concurrently in C16,
        // with the same static ids)
        type_id s0 = r.ids[r.static_class[0]][0];
        type_id s1 = static_class[1] >= 0 ? r.ids[r.static_class[1]][0] : (type_id)0x7fffffffffffff01ull;
        if (g_static_id[0] != s0)
            g_static_id[0] = s0;
        if (g_static_id[1] != s1)
            g_static_id[1] = s1;
    }

    void add_record(const Registry& r, int k) override {
        auto& rec = r.records[k];
        auto& ci = Store<P>::recs[k];
        if ((int)base_store.size() <= k)
            base_store.resize(k + 1);
        auto& bs = base_store[k];
        bs.clear();
        for (size_t i = 0; i < rec.listed.size(); ++i)
            bs.push_back(stored_id(r, rec.listed[i], rec.listed_alias[i]));
        bs.push_back(0); // spare slot: the "resolved" flag of deferred rtti
        fresh_class_info(ci, 0);
        ci.type = stored_id(r, rec.cls, rec.alias);
        ci.first_base = bs.data();
        ci.last_base = bs.data() + rec.listed.size();
        ci.is_abstract = r.abstract_[rec.cls];
        ci.static_vptr = slot_of(rec.cls);
        P::classes.push_back(ci);
        if ((int)rec_live.size() <= k)
            rec_live.resize(k + 1);
        rec_live[k] = true;
    }

    void remove_record(int k) override {
        P::classes.remove(Store<P>::recs[k]);
        rec_live[k] = false;
    }

    void attach_method(const Registry& r, int m) override {
        auto& o = op(r, m);
        auto& store = mvp_store[uid(r, m)];
        store.clear();
        for (int c : r.methods[m].vp)
            store.push_back(stored_id(r, c, 0));
        store.push_back(0);
        o.info->vp_begin = store.data();
        o.info->vp_end = store.data() + r.methods[m].vp.size();
        P::methods.push_back(*o.info);
    }

    void detach_method(const Registry& r, int m) override {
        P::methods.remove(*op(r, m).info);
    }

    void add_def(const Registry& r, int m, int d) override {
        auto& o = op(r, m);
        int u = uid(r, m);
        auto& di = Store<P>::defs[u][d];
        auto& store = dvp_store[u][d];
        store.clear();
        for (int c : r.methods[m].defs[d].vp)
            store.push_back(stored_id(r, c, 0));
        store.push_back(0);
        di.method = o.info;
        di.type = 0;
        di.next = &Store<P>::next_slot[u][d];
        di.vp_begin = store.data();
        di.vp_end = store.data() + r.methods[m].defs[d].vp.size();
        di.pf = o.body[d];
        o.info->specs.push_back(di);
    }

    void remove_def(const Registry& r, int m, int d) override {
        auto& di = Store<P>::defs[uid(r, m)][d];
        // what ~definition_info does
        di.method->specs.remove(di);
        di.method = nullptr;
    }

    void make_objects(const Registry& r) override {
        for (int c = 0; c < r.n; ++c)
            for (size_t a = 0; a < r.ids[c].size(); ++a) {
                objs[c][a] = std::make_shared<Node>(r.ids[c][a]);
                objs[c][a]->cls = c;
                objsd[c][a] = std::make_shared<NodeD>(r.ids[c][a]);
                objsd[c][a]->cls = c;
            }
    }

    void materialize(const Registry& r) override {
        soft_reset();
        bind_statics(r);
        for (size_t k = 0; k < r.records.size(); ++k)
            add_record(r, (int)k);
        for (int m : r.method_order) {
            if (!r.methods[m].attached)
                continue;
            attach_method(r, m);
            for (int d : r.methods[m].def_order)
                if (r.methods[m].def_live[d])
                    add_def(r, m, d);
        }
        make_objects(r);
    }

    template<class F>
    static void guarded(Outcome& out, F&& f) {
        t_events.clear();
        try {
            f();
            out.kind = Outcome::RAN;
        } catch (HarnessError& e) {
            Outcome o = outcome_of(e.err);
            o.ret = out.ret;
            out = o;
        } catch (HarnessCallError& e) {
            out.kind = Outcome::RES_ERR;
            out.via_call_error = true;
            out.status = e.code;
            out.arity = e.arity;
            for (int i = 0; i < 16; ++i)
                out.types[i] = e.types[i];
        } catch (y2::resolution_error& e) {
            out = outcome_of(y2::error_type(e));
        } catch (y2::unknown_class_error& e) {
            out = outcome_of(y2::error_type(e));
        } catch (y2::method_table_error& e) {
            out = outcome_of(y2::error_type(e));
        } catch (y2::hash_search_error& e) {
            out = outcome_of(y2::error_type(e));
        } catch (y2::static_slot_error& e) {
            out = outcome_of(y2::error_type(e));
        } catch (y2::static_stride_error& e) {
            out = outcome_of(y2::error_type(e));
        } catch (BadVptr& b) {
            out.kind = Outcome::OTHER_ERR;
            out.status = b.copy_changed_source ? -3 : -2; // virtual_ptr argument holds a foreign v-table pointer / a copy changed its source
            out.arity = (size_t)b.param;
        } catch (y2::error&) {
            out.kind = Outcome::OTHER_ERR;
        }
        out.events = t_events;
        t_events.clear();
    }

    UpdateResult update() override {
        UpdateResult res;
        guarded(res.err, [&] {
            auto c = std::make_shared<y2::detail::compiler<P>>(y2::update<P>());
            res.report = c->report;
            res.compiler = c;
        });
        res.ok = res.err.kind == Outcome::RAN;
        if (res.ok)
            sync_static_offsets();
        return res;
    }

    // -- observation ---------------------------------------------------------

    MethodView method(const Registry& r, int m) override {
        auto& o = op(r, m);
        MethodView v;
        v.shape = o.shape;
        v.inst = o.inst;
        v.info = o.info;
        v.slots_strides = o.slots_strides;
        for (int d = 0; d < MAXDEF_BIG; ++d)
            v.body[d] = o.body[d];
        return v;
    }

    void* next_of(int u, int d) override {
        return Store<P>::next_slot[u][d];
    }
    void poison_next(int u, int d) override {
        Store<P>::next_slot[u][d] = reinterpret_cast<void*>(0xdeadbeef);
    }
    std::uintptr_t* const* static_vptr_slot(int cls) override {
        return slot_of(cls);
    }
    const std::vector<std::uintptr_t>& dispatch_data() override {
        return P::dispatch_data;
    }
    const std::uintptr_t* lookup_vptr(type_id id) override {
        Node n(id);
        return P::dynamic_vptr(n);
    }
    size_t catalog_classes() override {
        return P::classes.size();
    }
    size_t catalog_methods() override {
        return P::methods.size();
    }

    template<class List>
    static std::vector<const void*> enumerate(List& l, bool const_iter) {
        std::vector<const void*> v;
        // (both iterator kinds, pre- and post-increment; the value of it++ is used)
        if (const_iter) {
            const List& cl = l;
            std::vector<const void*> pre;
            for (auto it = cl.begin(); it != cl.end(); ++it)
                pre.push_back(&*it);
            for (auto it = cl.begin(); it != cl.end();) {
                auto cur = it++;
                v.push_back(cur == cl.end() ? nullptr : &*cur);
            }
            if (pre != v)
                v.push_back(nullptr); // the two ways of iterating disagree: reported as a wrong catalog
        } else {
            std::vector<const void*> pre;
            for (auto it = l.begin(); it != l.end(); ++it)
                pre.push_back(&*it);
            for (auto it = l.begin(); it != l.end();) {
                auto cur = it++;
                v.push_back(cur == l.end() ? nullptr : &*cur);
            }
            if (pre != v)
                v.push_back(nullptr);
        }
        return v;
    }
    std::vector<const void*> catalog_class_records(bool const_iter) override {
        return enumerate(P::classes, const_iter);
    }
    std::vector<const void*> catalog_method_records(bool const_iter) override {
        return enumerate(P::methods, const_iter);
    }
    std::vector<const void*> catalog_definition_records(const Registry& r, int m, bool const_iter, size_t& size, bool& empty) override {
        auto& specs = op(r, m).info->specs;
        size = specs.size();
        empty = specs.empty();
        return enumerate(specs, const_iter);
    }
    const void* class_record_address(int rec) override {
        return &Store<P>::recs[rec];
    }
    const void* definition_record_address(const Registry& r, int m, int d) override {
        return &Store<P>::defs[uid(r, m)][d];
    }
    bool catalogs_empty(bool& classes_empty, bool& methods_empty) override {
        classes_empty = P::classes.empty();
        methods_empty = P::methods.empty();
        return true;
    }
    void clear_catalog(int which, const Registry& r, int m) override {
        if (which == 0)
            P::classes.clear();
        else if (which == 1)
            P::methods.clear();
        else {
            op(r, m).info->specs.clear();
            for (int d = 0; d < MAXDEF_BIG; ++d)
                Store<P>::defs[uid(r, m)][d].method = nullptr;
        }
    }

    std::string state_digest() override {
        std::ostringstream os;
        os << "classes=" << P::classes.size() << ";methods=" << P::methods.size() << ";dd=" << (const void*)P::dispatch_data.data()
           << ":" << P::dispatch_data.size() << ":";
        uint64_t h = 0;
        for (auto v : P::dispatch_data)
            h = h * 1099511628211ull + v;
        os << h << ";";
        if constexpr (P::template has_facet<yp::type_hash>)
            os << "hash=" << P::hash_mult << "," << P::hash_shift << "," << P::hash_length << ";";
        if constexpr (P::template has_facet<yp::external_vptr>) {
            uint64_t hv = 0;
            if constexpr (std::is_base_of_v<yp::vptr_vector<P>, P>) {
                for (auto v : P::vptrs)
                    hv = hv * 1099511628211ull + (uint64_t)v;
            } else {
                for (auto& kv : P::vptrs)
                    hv += kv.first * 31 + (uint64_t)kv.second;
            }
            os << "vptrs=" << P::vptrs.size() << ":" << hv << ";";
        }
        if constexpr (has_error_member<P>::value)
            os << "err=" << (P::error ? P::error.target_type().name() : "null") << ";";
        if constexpr (has_call_error_member<P>::value)
            os << "cerr=" << (const void*)P::call_error << ";";
        for (auto& m : P::methods) {
            os << "m" << (const void*)&m << ":" << m.specs.size() << ":";
            for (long i = 0; i < 2 * m.arity() - 1; ++i)
                os << m.slots_strides_ptr[i] << ",";
            for (auto& d : m.specs)
                os << (d.next ? *d.next : nullptr) << ",";
        }
        for (auto& c : P::classes)
            os << "c" << c.type << ":" << (const void*)*c.static_vptr << ";";
        return os.str();
    }

    // -- calls ---------------------------------------------------------------

    Node* object(int cls, int alias, bool derived) override {
        return derived ? static_cast<Node*>(objsd[cls][alias].get()) : objs[cls][alias].get();
    }

    void fill_ctx(const Registry& r, int m, const CallSpec& cs, CallCtx& c, const std::uintptr_t** expect_vptr) {
        const char* sig = g_shapes[r.methods[m].shape].sig;
        Rng rng(cs.nvseed);
        int vi = 0;
        for (int i = 0; sig[i]; ++i) {
            if (is_virtual_kind(sig[i])) {
                int cls = cs.tuple[vi], al = cs.alias[vi], rt = cs.route[vi];
                bool useD = rt == RT_FROM_D || rt == RT_CONV_COPY || rt == RT_CONV_MOVE;
                c.objd[i] = objsd[cls][al].get();
                c.spd[i] = objsd[cls][al];
                if (useD) {
                    c.obj[i] = static_cast<Node*>(objsd[cls][al].get());
                    c.sp[i] = objsd[cls][al];
                } else {
                    c.obj[i] = objs[cls][al].get();
                    c.sp[i] = objs[cls][al];
                }
                c.route[i] = rt;
                c.cls[i] = cls;
                c.held = &held;
                c.held_s = &held_s;
                if (expect_vptr)
                    expect_vptr[i] = *slot_of(cls);
                ++vi;
            } else {
                c.ival[i] = (int)rng.next();
                c.dval[i] = (double)(int64_t)rng.next() / 3.0;
                c.sval[i] = "s" + std::to_string(rng.next() % 100000);
                if (expect_vptr)
                    expect_vptr[i] = nullptr;
            }
        }
    }

    Outcome call(const Registry& r, int m, const CallSpec& cs) override {
        Outcome out;
        CallCtx c;
        const std::uintptr_t* expect_vptr[MAXPARAM] = {};
        fill_ctx(r, m, cs, c, expect_vptr);
        auto& o = op(r, m);
        guarded(out, [&] { out.ret = o.invoke(c, expect_vptr); });
        for (int i = 0; i < MAXPARAM; ++i)
            out.expect_obs[i] = c.expect[i];
        return out;
    }

    void* resolve(const Registry& r, int m, const CallSpec& cs, Outcome& out) override {
        CallCtx c;
        fill_ctx(r, m, cs, c, nullptr);
        auto& o = op(r, m);
        void* pf = nullptr;
        guarded(out, [&] { pf = o.resolve(c); });
        return pf;
    }

    Outcome hold_vptrs(const Registry& r) override {
        Outcome out;
        held.clear();
        held_s.clear();
        guarded(out, [&] {
            for (int c = 0; c < r.n; ++c) {
                // abstract (or, in histories, unregistered) classes have no objects: keep the
                // vectors indexable with any registered class's pointer
                int k = r.abstract_[c] ? r.static_class[0] : c;
                if (r.abstract_[k]) {
                    for (int q = 0; q < r.n; ++q)
                        if (!r.abstract_[q])
                            k = q;
                }
                held.push_back(virtual_ptr<Node, P>(*objs[k][0]));
                held_s.push_back(virtual_ptr<std::shared_ptr<Node>, P>(objs[k][0]));
            }
        });
        return out;
    }

    VptrProbe probe_vptr(const Registry& r, int cls, int alias, int route, bool shared) override {
        VptrProbe pr;
        CallCtx c;
        c.cls[0] = cls;
        c.held = &held;
        c.held_s = &held_s;
        bool useD = route == RT_FROM_D || route == RT_CONV_COPY || route == RT_CONV_MOVE;
        c.objd[0] = objsd[cls][alias].get();
        c.spd[0] = objsd[cls][alias];
        c.obj[0] = useD ? static_cast<Node*>(objsd[cls][alias].get()) : objs[cls][alias].get();
        c.sp[0] = useD ? std::shared_ptr<Node>(objsd[cls][alias]) : objs[cls][alias];
        c.route[0] = route;
        c.ival[0] = (int)alias;
        guarded(pr.out, [&] {
            if (shared) {
                auto vp = make_vsp<P>(c, 0);
                pr.get = vp.get().get();
                pr.deref = &*vp;
                pr.arrow = vp.operator->().get();
                pr.vptr = vp._vptr();
                pr.use_count = vp.get().use_count();
            } else {
                auto vp = make_vp<P>(c, 0);
                pr.get = vp.get();
                pr.deref = &*vp;
                pr.arrow = vp.operator->();
                pr.vptr = vp._vptr();
            }
        });
        return pr;
    }

    // -- hash ----------------------------------------------------------------

    bool hash_info(type_id& mult, size_t& shift, size_t& length, size_t& vptrs_size, size_t& control_size) override {
        if constexpr (P::template has_facet<yp::type_hash>) {
            mult = P::hash_mult;
            shift = P::hash_shift;
            length = P::hash_length;
            vptrs_size = P::vptrs.size();
            control_size = 0;
            if constexpr (P::template has_facet<yp::runtime_checks>)
                control_size = P::control.size();
            return true;
        } else {
            return false;
        }
    }

    Outcome hash_id(type_id id, type_id& index) override {
        Outcome out;
        if constexpr (P::template has_facet<yp::type_hash>) {
            guarded(out, [&] { index = P::hash_type_id(id); });
        }
        return out;
    }

    struct IdSet {
        std::vector<type_id> ids;
        auto type_id_begin() const {
            return ids.begin();
        }
        auto type_id_end() const {
            return ids.end();
        }
    };

    Outcome hash_init(const std::vector<std::vector<type_id>>& classes) override {
        Outcome out;
        if constexpr (P::template has_facet<yp::type_hash>) {
            std::vector<IdSet> sets;
            for (auto& c : classes)
                sets.push_back(IdSet{c});
            guarded(out, [&] { P::hash_initialize(sets.begin(), sets.end()); });
        }
        return out;
    }

    template<class Q>
    static auto set_budget(size_t n, int) -> decltype(Q::verif_max_attempts = n, true) {
        Q::verif_max_attempts = n;
        return true;
    }
    template<class Q>
    static bool set_budget(size_t, long) {
        return false;
    }
    bool set_hash_budget(size_t attempts) override {
        if constexpr (P::template has_facet<yp::type_hash>)
            return set_budget<P>(attempts, 0);
        else
            return false;
    }

    Outcome try_lookup(type_id id, const std::uintptr_t*& vptr) override {
        Outcome out;
        guarded(out, [&] { vptr = lookup_vptr(id); });
        return out;
    }

    bool has_static_offsets(const Registry& r, int m) override {
        return op(r, m).static_slots != nullptr;
    }
    void set_static_offsets(const Registry& r, int m, const std::vector<size_t>& slots, const std::vector<size_t>& strides) override {
        auto& o = op(r, m);
        for (size_t i = 0; i < slots.size() && i < (size_t)MAXAR; ++i)
            o.static_slots[i] = slots[i];
        for (size_t i = 0; i < strides.size() && i < (size_t)MAXAR; ++i)
            o.static_strides[i] = strides[i];
    }
    void sync_static_offsets() override {
        for (auto& o : ops)
            if (o.static_slots) {
                int ar = g_shapes[o.shape].arity;
                for (int i = 0; i < ar; ++i)
                    o.static_slots[i] = o.slots_strides[i];
                for (int i = 0; i + 1 < ar; ++i)
                    o.static_strides[i] = o.slots_strides[ar + i];
            }
    }

    void forget_installed_tables(const Registry& r) override {
        for (int c = 0; c < MAXC; ++c)
            Store<P>::vptr_slots[c] = nullptr;
        P::template static_vptr<Node> = nullptr;
        P::template static_vptr<NodeD> = nullptr;
        std::vector<std::uintptr_t>().swap(P::dispatch_data);
        if constexpr (P::template has_facet<yp::external_vptr>)
            decltype(P::vptrs)().swap(P::vptrs);
        for (auto& o : ops)
            for (int i = 0; i < 2 * g_shapes[o.shape].arity - 1; ++i)
                o.slots_strides[i] = 0;
        for (int u = 0; u < NSHAPES * NINST; ++u)
            for (int d = 0; d < MAXDEF_BIG; ++d)
                Store<P>::next_slot[u][d] = reinterpret_cast<void*>(0xdeadbeef);
    }

    std::vector<char> decode_buf;

    std::string decode(const EncodedData& d) override {
        DecodeMonitor mon;
        size_t enc_bytes = 2 * (d.headroom + d.nslots + d.nvtbls);
        size_t dec_bytes = 8 * d.ndecoded;
        size_t union_bytes = std::max(enc_bytes, dec_bytes);
        union_bytes = (union_bytes + 7) & ~size_t(7);
        size_t total = union_bytes + 8 * d.ndtbls;
        decode_buf.assign(total + 64, (char)0xCD);
        char* base = decode_buf.data() + 32 - (reinterpret_cast<uintptr_t>(decode_buf.data()) & 7) % 8;
        base += (8 - (reinterpret_cast<uintptr_t>(base) & 7)) & 7;
        memset(base, 0, total);
        mon.base = base;
        mon.enc_slots_off = 2 * d.headroom;
        mon.enc_slots_end = mon.enc_slots_off + 2 * d.nslots;
        mon.enc_vtbls_off = mon.enc_slots_end;
        mon.enc_vtbls_end = mon.enc_vtbls_off + 2 * d.nvtbls;
        mon.dec_end = dec_bytes;
        mon.dtbl_off = union_bytes;
        mon.dtbl_end = union_bytes + 8 * d.ndtbls;
        mon.enc_read_pos = mon.enc_vtbls_off;
        if (d.slots.size() > d.nslots || d.vtbls.size() > d.nvtbls || d.dtbls.size() > d.ndtbls)
            return "initialiser-longer-than-array";
        if (!d.slots.empty())
            memcpy(base + mon.enc_slots_off, d.slots.data(), 2 * d.slots.size());
        if (!d.vtbls.empty())
            memcpy(base + mon.enc_vtbls_off, d.vtbls.data(), 2 * d.vtbls.size());
        if (!d.dtbls.empty())
            memcpy(base + mon.dtbl_off, d.dtbls.data(), 8 * d.dtbls.size());
        ProxyData pd;
        pd.encoded.slots = {&mon, reinterpret_cast<uint16_t*>(base + mon.enc_slots_off)};
        pd.encoded.vtbls = {&mon, reinterpret_cast<uint16_t*>(base + mon.enc_vtbls_off)};
        pd.vtbls = {&mon, reinterpret_cast<std::uintptr_t*>(base)};
        pd.dtbls = {&mon, reinterpret_cast<std::uintptr_t*>(base + mon.dtbl_off)};
        Outcome out;
        guarded(out, [&] { y2::decode_dispatch_data<P>(pd); });
        if (out.kind != Outcome::RAN)
            return "decoder-reported-" + out.str();
        sync_static_offsets();
        return mon.error;
    }

    std::string write_static_offsets() override {
        return glue_write_static_offsets<P>();
    }
    std::string write_static_offsets_after_encode(const generic_compiler& c) override {
        return glue_write_static_offsets_after_encode<P>(c, name_);
    }
    std::string encode(const generic_compiler& c) override {
        return glue_encode(c, name_);
    }
    std::string encode_for_default_policy(const generic_compiler& c) override {
        return glue_encode(c, "");
    }
    std::string forward_declarations_of_methods(bool via_wrapper) override {
        return glue_fwd_policy<P>(via_wrapper);
    }
};

} // namespace vf

#endif

// The policy matrix: every stock facet configuration, with only the rtti
// facet supplied by the harness (field-based custom RTTI on the carriers).
#ifndef VF_POLICIES_HPP
#define VF_POLICIES_HPP

#include "common.hpp"

#include <map>
#include <typeinfo>

namespace vf {

namespace yp = yorel::yomm2::policy;

struct dyn_rtti : yp::rtti {
    template<class T>
    static type_id static_type() {
        if constexpr (std::is_same_v<T, NodeD>) {
            return g_static_id[1];
        } else if constexpr (std::is_same_v<T, Node>) {
            return g_static_id[0];
        } else {
            return reinterpret_cast<type_id>(&typeid(T));
        }
    }

    template<class T>
    static type_id dynamic_type(const T& obj) {
        if constexpr (std::is_base_of_v<Node, T>) {
            return obj.dyn_id;
        } else {
            return reinterpret_cast<type_id>(&typeid(T));
        }
    }

    template<class Stream>
    static void type_name(type_id type, Stream& stream) {
        stream << "id(" << type << ")";
    }

    static type_id type_index(type_id type) {
        return type;
    }

    template<typename D, typename B>
    static D dynamic_cast_ref(B&& obj) {
        return dynamic_cast<D>(obj);
    }
};

// many-to-one projection: the ids of one class differ in their two low bits
struct proj_rtti : dyn_rtti {
    static type_id type_index(type_id type) {
        return type & ~type_id(3);
    }
};

// deferred ids: static_type<T> is only callable once update runs
struct def_rtti : yp::deferred_static_rtti {
    template<class T>
    static type_id static_type() {
        return dyn_rtti::static_type<T>();
    }
    template<class T>
    static type_id dynamic_type(const T& obj) {
        return dyn_rtti::dynamic_type(obj);
    }
    template<class Stream>
    static void type_name(type_id type, Stream& stream) {
        stream << "id(" << type << ")";
    }
    static type_id type_index(type_id type) {
        return type;
    }
    template<typename D, typename B>
    static D dynamic_cast_ref(B&& obj) {
        return dynamic_cast<D>(obj);
    }
};

// null sink for error / trace output of the debug configuration
struct null_stream {
    template<class T>
    null_stream& operator<<(const T&) {
        return *this;
    }
};

// checked hash + vptr_vector + error output + trace output + vectored
// backward-compatible handler (= policy::debug with harness rtti)
struct P_dbg : yp::debug::rebind<P_dbg>::replace<yp::rtti, dyn_rtti> {};
// fast hash + vptr_vector (= policy::release with harness rtti)
struct P_rel : yp::release::rebind<P_rel>::replace<yp::rtti, dyn_rtti> {};
// debug configuration with the throwing error facet
struct P_thr : yp::debug::rebind<P_thr>::replace<yp::rtti, dyn_rtti>::replace<yp::error_handler, yp::throw_error> {};
// vptr_vector indexed directly by small integer ids (no hash)
struct P_vec : yp::release::rebind<P_vec>::replace<yp::rtti, dyn_rtti>::remove<yp::type_hash> {};
// vptr_map, no hash
struct P_map : yp::release::rebind<P_map>::replace<yp::rtti, dyn_rtti>::remove<yp::type_hash>::replace<
                   yp::external_vptr, yp::vptr_map<P_map>> {};
// indirect v-table pointers on the fast and on the checked hash
struct P_ind : yp::release::rebind<P_ind>::replace<yp::rtti, dyn_rtti>, yp::basic_indirect_vptr<P_ind> {};
struct P_indc : yp::debug::rebind<P_indc>::replace<yp::rtti, dyn_rtti>, yp::basic_indirect_vptr<P_indc> {};
// many-to-one type_index projection (checked hash)
struct P_proj : yp::debug::rebind<P_proj>::replace<yp::rtti, proj_rtti> {};
// projection on vptr_map
struct P_projm : yp::release::rebind<P_projm>::replace<yp::rtti, proj_rtti>::remove<yp::type_hash>::replace<
                     yp::external_vptr, yp::vptr_map<P_projm>> {};
// projection on a v-table pointer vector indexed directly by small integer ids (no hash)
struct P_projv : yp::release::rebind<P_projv>::replace<yp::rtti, proj_rtti>::remove<yp::type_hash> {};
// deferred static rtti
struct P_def : yp::debug::rebind<P_def>::replace<yp::rtti, def_rtti> {};
// further instances for isolation (C14) and the concurrent "other" policy (C16).  These two
// are built in the other order - facets replaced / removed on the stock policy first, rebind
// last - from one common base, so that a rebind that leaves a replaced facet bound to the
// stock policy makes them share that facet's state (v-table pointer map, error handler).
// P_b keeps the checked hash next to vptr_map (what `default_policy::replace<external_vptr,
// vptr_map<...>>` gives a user who does not also remove type_hash); P_c removes it.
using late_rebind_base = yp::debug::replace<yp::rtti, dyn_rtti>::replace<yp::external_vptr, yp::vptr_map<yp::debug>>::replace<
    yp::error_handler, yp::vectored_error<yp::debug>>;
struct P_b : late_rebind_base::rebind<P_b> {};
struct P_c : late_rebind_base::remove<yp::type_hash>::rebind<P_c> {};

// facets with explicit non-default extra template arguments, and a policy obtained from
// it by rebind: the rebound policy must get its *own* map, handler and stream
struct quiet_handler {
    static void default_error_handler(const yorel::yomm2::error_type&) {
    }
};
using ordered_vptr_map = std::map<type_id, const std::uintptr_t*>;
struct P_m1 : yp::basic_policy<P_m1, dyn_rtti, yp::vptr_map<P_m1, ordered_vptr_map>, yp::vectored_error<P_m1, quiet_handler>,
                               yp::basic_error_output<P_m1, null_stream>> {};
struct P_m2 : P_m1::rebind<P_m2> {};

} // namespace vf

#endif

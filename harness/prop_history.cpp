// C07: after any sequence of registering / unregistering classes, methods and
// definitions interleaved with updates, the latest update behaves like a fresh
// process holding the current registrations; a repeated update alters nothing.
#include "monitors.hpp"

#include <set>

namespace vf {

namespace {

struct Hist {
    Run& run;
    IWorld& w;
    Registry full; // the pool
    Oracle o;
    Rng& rng;
    std::vector<char> cls_live;
    std::vector<char> rec_live;
    std::vector<std::string> log;

    Hist(Run& run, IWorld& w, const Registry& full, Rng& rng) : run(run), w(w), full(full), o(full), rng(rng) {
        cls_live.assign(full.n, 0);
        rec_live.assign(full.records.size(), 0);
        for (auto& m : this->full.methods) {
            m.attached = false;
            m.def_live.assign(m.defs.size(), false);
        }
    }

    void note(const std::string& s) {
        log.push_back(s);
    }

    bool bases_live(int c) const {
        for (int b = 0; b < full.n; ++b)
            if (o.proper(c, b) && !cls_live[b])
                return false;
        return true;
    }

    void add_class(int c) {
        std::vector<int> recs;
        for (size_t k = 0; k < full.records.size(); ++k)
            if (full.records[k].cls == c)
                recs.push_back((int)k);
        rng.shuffle(recs);
        for (int k : recs) {
            w.add_record(full, k);
            rec_live[k] = 1;
        }
        cls_live[c] = 1;
        note("add_class " + std::to_string(c));
    }

    void remove_def(int m, int d) {
        w.remove_def(full, m, d);
        full.methods[m].def_live[d] = false;
        note("remove_def m" + std::to_string(m) + " d" + std::to_string(d));
    }

    void add_def(int m, int d) {
        w.add_def(full, m, d);
        full.methods[m].def_live[d] = true;
        note("add_def m" + std::to_string(m) + " d" + std::to_string(d));
    }

    void detach(int m) {
        w.detach_method(full, m);
        full.methods[m].attached = false;
        note("detach_method m" + std::to_string(m));
    }

    void attach(int m) {
        w.attach_method(full, m);
        full.methods[m].attached = true;
        note("attach_method m" + std::to_string(m));
    }

    // as unloading the library that defines c: everything that mentions c or a
    // class derived from it goes too
    void remove_class(int c) {
        std::vector<char> gone(full.n, 0);
        for (int d = 0; d < full.n; ++d)
            if (cls_live[d] && o.derives(d, c))
                gone[d] = 1;
        for (size_t m = 0; m < full.methods.size(); ++m) {
            auto& me = full.methods[m];
            for (size_t d = 0; d < me.defs.size(); ++d) {
                if (!me.def_live[d])
                    continue;
                bool hit = false;
                for (int x : me.defs[d].vp)
                    hit |= gone[x] != 0;
                if (hit)
                    remove_def((int)m, (int)d);
            }
            bool hit = false;
            for (int x : me.vp)
                hit |= gone[x] != 0;
            if (hit && me.attached) {
                // a method's definitions are unregistered with it
                for (size_t d = 0; d < me.defs.size(); ++d)
                    if (me.def_live[d])
                        remove_def((int)m, (int)d);
                detach((int)m);
            }
        }
        for (size_t k = 0; k < full.records.size(); ++k)
            if (rec_live[k] && gone[full.records[k].cls]) {
                w.remove_record((int)k);
                rec_live[k] = 0;
            }
        for (int d = 0; d < full.n; ++d)
            if (gone[d]) {
                cls_live[d] = 0;
                note("remove_class " + std::to_string(d));
            }
    }

    bool method_classes_live(int m) const {
        for (int x : full.methods[m].vp)
            if (!cls_live[x])
                return false;
        return true;
    }
    bool def_classes_live(int m, int d) const {
        for (int x : full.methods[m].defs[d].vp)
            if (!cls_live[x])
                return false;
        return true;
    }

    // the registry as currently registered: dead classes can never be passed
    Registry current() const {
        Registry cur = full;
        for (int c = 0; c < full.n; ++c)
            if (!cls_live[c])
                cur.abstract_[c] = 1;
        std::vector<Record> recs;
        for (size_t k = 0; k < full.records.size(); ++k)
            if (rec_live[k])
                recs.push_back(full.records[k]);
        cur.records = recs;
        return cur;
    }

    std::string log_json() const {
        std::string s = "[";
        for (size_t i = 0; i < log.size(); ++i)
            s += (i ? "," : "") + jstr(log[i]);
        return s + "]";
    }
};

} // namespace

int prop_history(Run& run) {
    bool thorough = run.tier == "thorough";
    GenProfile prof;
    prof.min_classes = 3;
    prof.max_classes = thorough ? 20 : 10;
    prof.max_methods = 4;
    prof.max_defs = 5;
    auto ws = suitable_worlds(run, true, false);
    if (ws.empty())
        return 2;
    for (long cs = 0; cs < run.cases; ++cs) {
        if (run.only_case >= 0 && cs != run.only_case)
            continue;
        run.cur_case = cs;
        Rng rng(run.seed, (uint64_t)cs);
        IWorld* w = ws[(size_t)((cs + run.seed) % ws.size())];
        Registry full;
        gen_graph(rng, prof, full);
        Oracle o0(full);
        gen_methods(rng, prof, full, o0);
        assign_ids(rng, full, pick_flavour(rng, w->caps()), 1);
        gen_presentation(rng, full, o0, (int)rng.below(NPRES));
        full.static_class[0] = (int)rng.below(full.n);
        full.static_class[1] = (int)rng.below(full.n);
        if (rng.chance(1, 2))
            w->hard_reset();
        else
            w->soft_reset();
        w->bind(full);
        w->make_objects(full);
        Hist h(run, *w, full, rng);
        int nops = rng.range(5, thorough ? 40 : 24);
        uint64_t bseed = rng.next();
        int updates = 0;
        bool stop = false, abandoned = false;
        std::set<type_id> ever_registered; // ids that were registered when some earlier update of this history ran
        Behaviour last;
        // start from everything registered half of the time
        if (rng.chance(1, 2)) {
            std::vector<int> order;
            for (int c = 0; c < full.n; ++c)
                order.push_back(c);
            // bases first
            std::sort(order.begin(), order.end(), [&](int a, int b) {
                int wa = 0, wb = 0;
                for (int k = 0; k < full.n; ++k) {
                    wa += h.o.proper(a, k);
                    wb += h.o.proper(b, k);
                }
                return wa < wb;
            });
            for (int c : order)
                h.add_class(c);
            for (size_t m = 0; m < full.methods.size(); ++m) {
                h.attach((int)m);
                for (size_t d = 0; d < full.methods[m].defs.size(); ++d)
                    h.add_def((int)m, (int)d);
            }
        }
        for (int op = 0; op <= nops && !stop && !abandoned; ++op) {
            int kind = op == nops ? 9 : (int)rng.below(10);
            switch (kind) {
            case 0:
            case 1: { // add a class whose bases are registered
                std::vector<int> cand;
                for (int c = 0; c < full.n; ++c)
                    if (!h.cls_live[c] && h.bases_live(c))
                        cand.push_back(c);
                if (!cand.empty())
                    h.add_class(cand[rng.below(cand.size())]);
                break;
            }
            case 2: { // remove a class (and what depends on it)
                std::vector<int> cand;
                for (int c = 0; c < full.n; ++c)
                    if (h.cls_live[c])
                        cand.push_back(c);
                if (!cand.empty())
                    h.remove_class(cand[rng.below(cand.size())]);
                break;
            }
            case 3: { // attach a method
                std::vector<int> cand;
                for (size_t m = 0; m < full.methods.size(); ++m)
                    if (!h.full.methods[m].attached && h.method_classes_live((int)m)) {
                        bool ok = true; // definitions still linked to it must be legal
                        for (size_t d = 0; d < full.methods[m].defs.size(); ++d)
                            if (h.full.methods[m].def_live[d] && !h.def_classes_live((int)m, (int)d))
                                ok = false;
                        if (ok)
                            cand.push_back((int)m);
                    }
                if (!cand.empty())
                    h.attach(cand[rng.below(cand.size())]);
                break;
            }
            case 4: { // detach a method, keeping its definitions linked
                std::vector<int> cand;
                for (size_t m = 0; m < full.methods.size(); ++m)
                    if (h.full.methods[m].attached)
                        cand.push_back((int)m);
                if (!cand.empty() && rng.chance(1, 2))
                    h.detach(cand[rng.below(cand.size())]);
                break;
            }
            case 5:
            case 6: { // add a definition
                std::vector<std::pair<int, int>> cand;
                for (size_t m = 0; m < full.methods.size(); ++m)
                    if (h.method_classes_live((int)m))
                        for (size_t d = 0; d < full.methods[m].defs.size(); ++d)
                            if (!h.full.methods[m].def_live[d] && h.def_classes_live((int)m, (int)d))
                                cand.push_back({(int)m, (int)d});
                if (!cand.empty()) {
                    auto pr = cand[rng.below(cand.size())];
                    h.add_def(pr.first, pr.second);
                }
                break;
            }
            case 7: { // remove a definition
                std::vector<std::pair<int, int>> cand;
                for (size_t m = 0; m < full.methods.size(); ++m)
                    for (size_t d = 0; d < full.methods[m].defs.size(); ++d)
                        if (h.full.methods[m].def_live[d])
                            cand.push_back({(int)m, (int)d});
                if (!cand.empty()) {
                    auto pr = cand[rng.below(cand.size())];
                    h.remove_def(pr.first, pr.second);
                }
                break;
            }
            default: { // update (once or twice) and judge
                Registry cur = h.current();
                set_current_case(run, w->name(), "{\"history\":" + h.log_json() + ",\"registry\":" + dump_registry(cur) + "}");
                for (auto& me : cur.methods)
                    if (me.attached)
                        for (size_t d = 0; d < me.defs.size(); ++d)
                            if (me.def_live[d])
                                w->poison_next(me.shape * NINST + me.inst, (int)d);
                CaseCtx c{run, *w, cur, h.o, rng, "history " + h.log_json()};
                UpdateResult u;
                h.note("update");
                if (!do_update(c, u, "C07")) {
                    abandoned = true;
                    break;
                }
                ++updates;
                Behaviour expected, got;
                oracle_behaviour(cur, h.o, bseed, thorough ? 300 : 120, true, expected);
                behaviour(c, bseed, thorough ? 300 : 120, 0, true, got);
                long d = first_difference(expected, got);
                if (d >= 0) {
                    std::string ra = d < (long)expected.rows.size() ? expected.rows[d] : "(missing)";
                    std::string rb = d < (long)got.rows.size() ? got.rows[d] : "(missing)";
                    bool isnext = rb.find("next(") != std::string::npos;
                    stop = run.violation(std::string("C07:differs-from-fresh-process:") + (isnext ? "next" : "call") + (w->caps().deferred ? ":deferred-rtti" : ""),
                                         witness_json(c, "behaviour after update #" + std::to_string(updates) + " of the history", "", "as registered now: " + ra, rb));
                    abandoned = true;
                    break;
                }
                // a class whose registration was removed is unknown again, as in a fresh process: the
                // checked hash must not keep answering for its id (stock checked configuration only)
                {
                    Caps caps = w->caps();
                    std::set<type_id> live;
                    for (auto& rec : cur.records)
                        live.insert(cur.ids[rec.cls][rec.alias]);
                    if (caps.checked && caps.hash && !caps.map && !caps.projection && !caps.deferred) {
                        for (auto id : ever_registered) {
                            if (live.count(id))
                                continue;
                            const std::uintptr_t* vp = nullptr;
                            set_stage("lookup-of-unloaded-class");
                            Outcome lo = w->try_lookup(id, vp);
                            set_stage("monitor");
                            run.evaluations++;
                            run.count("lookups-of-unloaded-classes");
                            if (lo.kind != Outcome::UNKNOWN_CLASS) {
                                stop = run.violation("C07:unloaded-class-still-known",
                                                     witness_json(c, "dynamic_vptr of an object whose class was unregistered before update #" + std::to_string(updates), "", "unknown_class_error type=" + hex(id) + " (as in a fresh process)", lo.kind == Outcome::RAN ? "a v-table pointer" : lo.str()));
                                abandoned = true;
                                break;
                            }
                        }
                        if (abandoned)
                            break;
                    }
                    ever_registered.insert(live.begin(), live.end());
                }
                if (rng.chance(1, 2)) {
                    // update again with no change: nothing may change
                    std::vector<std::size_t> ss;
                    for (size_t m = 0; m < cur.methods.size(); ++m)
                        if (cur.methods[m].attached) {
                            MethodView mv = w->method(cur, (int)m);
                            for (size_t i = 0; i < 2 * cur.methods[m].vp.size() - 1; ++i)
                                ss.push_back(mv.slots_strides[i]);
                        }
                    UpdateResult u2;
                    h.note("update (no change)");
                    c.label = "history " + h.log_json();
                    if (!do_update(c, u2, "C07")) {
                        abandoned = true;
                        break;
                    }
                    Behaviour again;
                    behaviour(c, bseed, thorough ? 300 : 120, 0, true, again);
                    long d2 = first_difference(got, again);
                    std::vector<std::size_t> ss2;
                    for (size_t m = 0; m < cur.methods.size(); ++m)
                        if (cur.methods[m].attached) {
                            MethodView mv = w->method(cur, (int)m);
                            for (size_t i = 0; i < 2 * cur.methods[m].vp.size() - 1; ++i)
                                ss2.push_back(mv.slots_strides[i]);
                        }
                    run.count("updates.repeated");
                    if (d2 >= 0 || ss != ss2) {
                        stop = run.violation(std::string("C07:repeated-update-changes-behaviour") + (w->caps().deferred ? ":deferred-rtti" : ""),
                                             witness_json(c, "second update with no change", "", d2 >= 0 ? got.rows[std::min<size_t>(d2, got.rows.size() - 1)] : "same slots and strides",
                                                          d2 >= 0 && d2 < (long)again.rows.size() ? again.rows[d2] : "different"));
                        abandoned = true;
                        break;
                    }
                }
                last = got;
                run.count("updates");
                break;
            }
            }
        }
        if (!stop && !abandoned && updates > 0 && rng.chance(1, 3)) {
            // the same registrations in a "fresh process": hard reset, register, update
            Registry cur = h.current();
            w->hard_reset();
            set_current_case(run, w->name(), "{\"fresh\":true,\"registry\":" + dump_registry(cur) + "}");
            w->materialize(cur);
            CaseCtx c{run, *w, cur, h.o, rng, "fresh process for history " + h.log_json()};
            UpdateResult u;
            if (do_update(c, u, "C07")) {
                Behaviour fresh;
                behaviour(c, bseed, thorough ? 300 : 120, 0, true, fresh);
                long d = first_difference(last, fresh);
                run.count("fresh-process-comparisons");
                if (d >= 0)
                    stop = run.violation("C07:history-differs-from-fresh-materialisation",
                                         witness_json(c, "history vs fresh process", "", d < (long)fresh.rows.size() ? fresh.rows[d] : "(missing)", d < (long)last.rows.size() ? last.rows[d] : "(missing)"));
            }
        }
        run.count(std::string("world.") + w->name());
        run.count("history-ops", (long)h.log.size());
        if (updates >= 2) {
            uint64_t hh = registry_hash(full);
            for (auto& s : h.log)
                hh = hh * 1099511628211ull ^ std::hash<std::string>()(s);
            run.distinct.insert(hh);
            if (run.samples.size() < 2)
                run.sample("{\"world\":" + jstr(w->name()) + ",\"history\":" + h.log_json() + "}");
        }
        if (stop)
            return 1;
    }
    return run.violations.empty() ? 0 : 1;
}

} // namespace vf

// C12 (generated static offsets) and C13 (encoded dispatch data): the real
// generator runs on generated registries; its text is parsed and compared /
// decoded under monitors.
#include "monitors.hpp"

#include <fstream>

namespace vf {

// ---------------------------------------------------------------------------
// C12

struct OffsetsLine {
    std::string name;
    std::vector<size_t> slots, strides;
    bool ok = false;
};

static std::vector<size_t> parse_braced(const std::string& s, size_t from, size_t& end, bool& ok) {
    std::vector<size_t> v;
    size_t a = s.find('{', from);
    size_t b = a == std::string::npos ? a : s.find('}', a);
    ok = false;
    if (b == std::string::npos)
        return v;
    std::string body = s.substr(a + 1, b - a - 1);
    end = b + 1;
    std::istringstream is(body);
    std::string tok;
    ok = true;
    while (std::getline(is, tok, ',')) {
        size_t i = tok.find_first_not_of(" \t");
        if (i == std::string::npos) {
            ok = false;
            break;
        }
        char* e = nullptr;
        unsigned long long x = strtoull(tok.c_str() + i, &e, 0); // any C++ integer literal: 16, 0x10
        while (*e == ' ')
            ++e;
        if (*e) {
            ok = false;
            break;
        }
        v.push_back((size_t)x);
    }
    return v;
}

// one specialisation per method: template<> struct ...static_offsets<NAME> { ... slots[] = {..}; [... strides[] = {..};] };
// (layout tolerant: only the tokens that the consumer - core.hpp - relies on are required)
static std::vector<OffsetsLine> parse_offsets(const std::string& text) {
    std::vector<OffsetsLine> out;
    const std::string key = "static_offsets<";
    size_t pos = 0;
    while (true) {
        size_t k = text.find(key, pos);
        if (k == std::string::npos)
            break;
        size_t nxt = text.find(key, k + key.size());
        std::string chunk = text.substr(k, (nxt == std::string::npos ? text.size() : nxt) - k);
        // the specialisation that follows starts with its own 'template<>' prefix: cut it off
        size_t tcut = chunk.rfind("template");
        if (nxt != std::string::npos && tcut != std::string::npos && tcut > 0)
            chunk = chunk.substr(0, tcut);
        OffsetsLine ol;
        size_t s1 = chunk.find("slots[]");
        size_t s2 = chunk.find("strides[]");
        bool ok1 = false, ok2 = true;
        size_t end = 0;
        if (s1 != std::string::npos) {
            // the method name: up to the '>' that precedes the opening brace of the body
            size_t body = chunk.rfind('{', s1);
            size_t gt = body == std::string::npos ? body : chunk.rfind('>', body);
            if (gt != std::string::npos && gt >= key.size())
                ol.name = chunk.substr(key.size(), gt - key.size());
            ol.slots = parse_braced(chunk, s1, end, ok1);
            if (s2 != std::string::npos)
                ol.strides = parse_braced(chunk, s2, end, ok2);
            // the body must be closed
            size_t close = chunk.find('}', end);
            ol.ok = ok1 && ok2 && close != std::string::npos && !ol.name.empty();
        }
        out.push_back(ol);
        pos = k + key.size();
    }
    return out;
}

int prop_offsets(Run& run) {
    bool thorough = run.tier == "thorough";
    GenProfile prof;
    prof.min_classes = 2;
    prof.max_classes = thorough ? 24 : 12;
    prof.max_methods = thorough ? 10 : 6;
    prof.max_defs = 4;
    auto ws = suitable_worlds(run, false, false);
    if (ws.empty())
        return 2;
    std::string emitdir = run.outdir + "/emit";
    for (long cs = 0; cs < run.cases; ++cs) {
        if (run.only_case >= 0 && cs != run.only_case)
            continue;
        run.cur_case = cs;
        Rng rng(run.seed, (uint64_t)cs);
        IWorld* w = ws[(size_t)((cs + run.seed) % ws.size())];
        Registry r;
        GenProfile pcase = prof;
        if (rng.chance(1, 6)) { // many methods on few classes: slot numbers of two digits
            pcase.max_classes = 8;
            pcase.max_methods = 28;
            pcase.max_defs = 2;
            run.count("registries-with-many-methods");
        }
        gen_graph(rng, pcase, r);
        Oracle o(r);
        gen_methods(rng, pcase, r, o);
        // half of the methods use the static-offsets instance (one per shape)
        std::set<int> used2;
        for (auto& me : r.methods)
            if (me.inst == 2)
                used2.insert(me.shape);
        for (auto& me : r.methods)
            if (me.inst != 2 && !used2.count(me.shape) && rng.chance(2, 3)) {
                me.inst = 2;
                used2.insert(me.shape);
            }
        // (a third of the cases: the offsets are written after encode_dispatch_data on the same
        // stream; the encoder demangles class ids, so these cases need real type_info pointers)
        bool want_after_encode = rng.chance(1, 3) && !w->caps().small_ids && !w->caps().projection;
        assign_ids(rng, r, want_after_encode ? 1 : pick_flavour(rng, w->caps()), 1);
        gen_presentation(rng, r, o, (int)rng.below(NPRES));
        r.static_class[0] = (int)rng.below(r.n);
        r.static_class[1] = (int)rng.below(r.n);
        set_current_case(run, w->name(), dump_registry(r));
        if (rng.chance(1, 2))
            w->hard_reset();
        w->materialize(r);
        CaseCtx c{run, *w, r, o, rng, ""};
        UpdateResult u;
        if (!do_update(c, u, "C12"))
            continue;
        set_stage("write_static_offsets");
        // (after encode_dispatch_data, on the same stream, the offsets come out in whatever number
        // format the encoder left behind, and must still be right)
        bool after_encode = u.compiler && want_after_encode;
        std::string text = after_encode ? w->write_static_offsets_after_encode(*u.compiler) : w->write_static_offsets();
        if (after_encode)
            run.count("offsets-written-after-encode-on-the-same-stream");
        set_stage("monitor");
        auto lines = parse_offsets(text);
        auto fail = [&](const std::string& key, const std::string& what, const std::string& e, const std::string& ob) {
            return run.violation("C12:" + key, witness_json(c, what + "; generated text: " + text.substr(0, 1500), "", e, ob));
        };
        bool stop = false;
        if (lines.size() != r.methods.size()) {
            if (fail("line-count", "one static_offsets specialisation per method", std::to_string(r.methods.size()), std::to_string(lines.size())))
                return 1;
            continue;
        }
        int maxar = 0;
        // each specialisation names its method: vf::key<shape, instance> (the order of the lines is
        // not part of the property)
        std::vector<int> line_of(r.methods.size(), -1);
        for (size_t k = 0; k < lines.size(); ++k) {
            size_t kp = lines[k].name.find("key<");
            int S = -1, K = -1;
            if (kp != std::string::npos)
                sscanf(lines[k].name.c_str() + kp, "key<%d, %d>", &S, &K);
            for (size_t m = 0; m < r.methods.size(); ++m)
                if (r.methods[m].shape == S && r.methods[m].inst == K)
                    line_of[m] = (int)k;
        }
        for (size_t kk = 0; kk < r.method_order.size() && !stop; ++kk) {
            int m = r.method_order[kk];
            auto& me = r.methods[m];
            if (line_of[m] < 0) {
                stop = fail("method-without-specialisation", "method " + std::to_string(m) + " (" + g_shapes[me.shape].sig + ")", "a static_offsets specialisation naming it", "none");
                break;
            }
            size_t k = (size_t)line_of[m];
            auto& ln = lines[k];
            MethodView mv = w->method(r, m);
            size_t ar = me.vp.size();
            maxar = std::max<int>(maxar, (int)ar);
            run.evaluations++;
            run.count("methods.arity" + std::to_string(ar));
            if (!ln.ok) {
                stop = fail("malformed-line", "line " + std::to_string(k), "template<> struct ...static_offsets<M> {... slots[] = {..}; [... strides[] = {..}; ]};", "unparsable");
                break;
            }
            const generic_compiler::method* cm = nullptr;
            for (auto& x : u.compiler->methods)
                if (x.info == mv.info)
                    cm = &x;
            if (ln.slots.size() != ar || ln.strides.size() != ar - 1) {
                stop = fail("wrong-count", "method " + std::to_string(m) + " of arity " + std::to_string(ar), std::to_string(ar) + " slots, " + std::to_string(ar - 1) + " strides",
                            std::to_string(ln.slots.size()) + " slots, " + std::to_string(ln.strides.size()) + " strides");
                break;
            }
            for (size_t i = 0; i < ar && !stop; ++i) {
                if (ln.slots[i] != mv.slots_strides[i] || (cm && ln.slots[i] != cm->slots[i]))
                    stop = fail("slot-differs:arity" + std::to_string(ar), "method " + std::to_string(m) + " slots[" + std::to_string(i) + "]", "installed " + std::to_string(mv.slots_strides[i]), "generated " + std::to_string(ln.slots[i]));
            }
            for (size_t i = 0; i + 1 < ar && !stop; ++i) {
                if (ln.strides[i] != mv.slots_strides[ar + i] || (cm && ln.strides[i] != cm->strides[i]))
                    stop = fail("stride-differs:arity" + std::to_string(ar), "method " + std::to_string(m) + " strides[" + std::to_string(i) + "]", "installed " + std::to_string(mv.slots_strides[ar + i]), "generated " + std::to_string(ln.strides[i]));
            }
            if (stop)
                break;
            // a program compiled with the generated offsets: install the parsed numbers
            if (w->has_static_offsets(r, m))
                w->set_static_offsets(r, m, ln.slots, ln.strides);
        }
        if (!stop && run.violations.empty()) {
            // dispatch with the generated offsets behaves like run-time offsets (oracle)
            uint64_t bseed = rng.next();
            Behaviour expected, got;
            oracle_behaviour(r, o, bseed, 200, false, expected);
            behaviour(c, bseed, 200, 0, false, got);
            long d = first_difference(expected, got);
            if (d >= 0)
                stop = fail("dispatch-with-generated-offsets-differs", "calls through methods compiled with static offsets", d < (long)expected.rows.size() ? expected.rows[d] : "(missing)", d < (long)got.rows.size() ? got.rows[d] : "(missing)");
            // the debug-build consistency check rejects any other offset
            if (!stop && w->caps().checked) {
                for (size_t kk = 0; kk < r.method_order.size() && !stop; ++kk) {
                    int m = r.method_order[kk];
                    auto& me = r.methods[m];
                    if (!w->has_static_offsets(r, m) || line_of[m] < 0)
                        continue;
                    size_t k = (size_t)line_of[m];
                    std::vector<std::vector<int>> tuples;
                    enum_tuples(rng, r, o, me, 8, tuples);
                    if (tuples.empty())
                        continue;
                    size_t ar = me.vp.size();
                    size_t npos = 2 * ar - 1;
                    size_t pos = rng.below(npos);
                    auto slots = lines[k].slots, strides = lines[k].strides;
                    size_t delta = 1 + rng.below(3);
                    bool is_stride = pos >= ar;
                    if (is_stride)
                        strides[pos - ar] += delta;
                    else
                        slots[pos] = slots[pos] >= delta && rng.chance(1, 2) ? slots[pos] - delta : slots[pos] + delta;
                    w->set_static_offsets(r, m, slots, strides);
                    CallSpec csx{};
                    auto& t = tuples[rng.below(tuples.size())];
                    for (size_t i = 0; i < t.size(); ++i) {
                        csx.tuple[i] = t[i];
                        csx.alias[i] = 0;
                    }
                    csx.nvseed = rng.next();
                    choose_routes(rng, r, me, csx, false);
                    set_stage("call-with-perturbed-offsets");
                    Outcome out = w->call(r, m, csx);
                    set_stage("monitor");
                    run.evaluations++;
                    run.count(is_stride ? "perturbed.stride" : "perturbed.slot");
                    Outcome::Kind want = is_stride ? Outcome::STRIDE_ERR : Outcome::SLOT_ERR;
                    if (out.kind != want || !out.events.empty())
                        stop = fail(std::string("checked-policy-accepts-wrong-") + (is_stride ? "stride" : "slot") + ":arity" + std::to_string(ar),
                                    "method " + std::to_string(m) + ": position " + std::to_string(pos) + " of slots+strides perturbed by " + std::to_string(delta),
                                    is_stride ? "static_stride_error" : "static_slot_error", out.str());
                    w->set_static_offsets(r, m, lines[k].slots, lines[k].strides);
                }
            }
        }
        // a few emitted texts are compiled by the driver (well-formed C++ for g++ and clang++)
        if (cs < 3 && run.only_case < 0) {
            std::ofstream f(emitdir + "/offsets-" + w->name() + "-s" + std::to_string(run.seed) + "-c" + std::to_string(cs) + ".inc");
            f << text;
        }
        run.count(std::string("world.") + w->name());
        if (maxar >= 3)
            run.distinct.insert(registry_hash(r) ^ std::hash<std::string>()(w->name()));
        if (maxar >= 3 && run.samples.size() < 2)
            run.sample("{\"world\":" + jstr(w->name()) + ",\"generated\":" + jstr(text.substr(0, 600)) + "}");
        w->sync_static_offsets();
        if (stop)
            return 1;
    }
    return run.violations.empty() ? 0 : 1;
}

// ---------------------------------------------------------------------------
// C13

// the initialiser as a tree of braces and numbers (comments stripped, layout ignored)
struct Init {
    std::vector<Init> kids;
    std::vector<unsigned long long> nums; // when leaf list
    bool is_list = false;
    bool has_num = false;
    unsigned long long num = 0;
};

static bool parse_init(const std::string& t, size_t& i, Init& out, int depth) {
    // t[i] == '{'
    out.is_list = true;
    ++i;
    while (i < t.size()) {
        unsigned char ch = (unsigned char)t[i];
        if (isspace(ch) || ch == ',') {
            ++i;
        } else if (ch == '{') {
            if (depth > 8)
                return false;
            Init k;
            if (!parse_init(t, i, k, depth + 1))
                return false;
            out.kids.push_back(k);
        } else if (ch == '}') {
            ++i;
            return true;
        } else if (isdigit(ch)) {
            char* e = nullptr;
            Init k;
            k.has_num = true;
            k.num = strtoull(t.c_str() + i, &e, 0);
            i = e - t.c_str();
            out.kids.push_back(k);
        } else {
            return false;
        }
    }
    return false;
}

static bool numbers_of(const Init& n, std::vector<unsigned long long>& out) {
    for (auto& k : n.kids) {
        if (!k.has_num)
            return false;
        out.push_back(k.num);
    }
    return true;
}

static bool parse_encoded(const std::string& text_in, EncodedData& d, std::string& why) {
    // strip // comments
    std::string text;
    for (size_t i = 0; i < text_in.size(); ++i) {
        if (text_in[i] == '/' && i + 1 < text_in.size() && text_in[i + 1] == '/') {
            while (i < text_in.size() && text_in[i] != '\n')
                ++i;
            text += '\n';
        } else {
            text += text_in[i];
        }
    }
    auto num_after = [&](const char* type, const char* name, size_t& v) {
        // "<type> <name>[N]" with any spacing
        size_t k = 0;
        std::string nm = name;
        while ((k = text.find(nm, k)) != std::string::npos) {
            size_t j = k + nm.size();
            while (j < text.size() && isspace((unsigned char)text[j]))
                ++j;
            // the word before must be the element type
            size_t b = k;
            while (b > 0 && isspace((unsigned char)text[b - 1]))
                --b;
            size_t a = b;
            while (a > 0 && (isalnum((unsigned char)text[a - 1]) || text[a - 1] == '_' || text[a - 1] == ':'))
                --a;
            std::string tword = text.substr(a, b - a);
            bool boundary = k == 0 || !(isalnum((unsigned char)text[k - 1]) || text[k - 1] == '_');
            if (boundary && j < text.size() && text[j] == '[' && tword.find(type) != std::string::npos) {
                char* e = nullptr;
                long long x = strtoll(text.c_str() + j + 1, &e, 10);
                if (e != text.c_str() + j + 1 && x >= 0) {
                    v = (size_t)x;
                    return true;
                }
                return false;
            }
            k += nm.size();
        }
        return false;
    };
    if (!num_after("uint16_t", "headroom", d.headroom) || !num_after("uint16_t", "slots", d.nslots) || !num_after("uint16_t", "vtbls", d.nvtbls) ||
        !num_after("uintptr_t", "vtbls", d.ndecoded) || !num_after("uintptr_t", "dtbls", d.ndtbls)) {
        why = "array-declarations";
        return false;
    }
    size_t eq = text.find("yomm2_dispatch_data");
    eq = eq == std::string::npos ? eq : text.find('=', eq);
    size_t ob = eq == std::string::npos ? eq : text.find('{', eq);
    if (ob == std::string::npos) {
        why = "initialiser-not-found";
        return false;
    }
    Init root;
    size_t i = ob;
    if (!parse_init(text, i, root, 0)) {
        why = "initialiser";
        return false;
    }
    if (text.find("decode_dispatch_data<", i) == std::string::npos) {
        why = "decode-call-missing";
        return false;
    }
    // { { { {headroom}, {slots}, {vtbls} } }, {dtbls} }
    const Init* enc = nullptr;
    if (root.kids.size() == 2 && root.kids[0].is_list && root.kids[0].kids.size() == 1 && root.kids[0].kids[0].is_list && root.kids[0].kids[0].kids.size() == 3)
        enc = &root.kids[0].kids[0];
    if (!enc || !root.kids[1].is_list) {
        why = "initialiser-shape";
        return false;
    }
    std::vector<unsigned long long> h, s1, s2, s3;
    if (!numbers_of(enc->kids[0], h) || !numbers_of(enc->kids[1], s1) || !numbers_of(enc->kids[2], s2) || !numbers_of(root.kids[1], s3) || !h.empty()) {
        why = "initialiser-values";
        return false;
    }
    for (auto x : s1) {
        if (x > 0xffff) {
            why = "slot-does-not-fit-16-bits";
            return false;
        }
        d.slots.push_back((uint16_t)x);
    }
    for (auto x : s2) {
        if (x > 0xffff) {
            why = "code-does-not-fit-16-bits";
            return false;
        }
        d.vtbls.push_back((uint16_t)x);
    }
    for (auto x : s3)
        d.dtbls.push_back((std::uintptr_t)x);
    return true;
}

int prop_encode(Run& run) {
    bool thorough = run.tier == "thorough";
    GenProfile prof;
    prof.min_classes = 2;
    prof.max_classes = thorough ? 40 : 16;
    prof.max_methods = thorough ? 8 : 5;
    prof.max_defs = 5;
    std::vector<IWorld*> ws;
    for (auto w : worlds())
        if (!w->caps().deferred && !w->caps().projection && !w->caps().small_ids && run.want_policy(w->name()))
            ws.push_back(w);
    if (ws.empty())
        return 2;
    std::string emitdir = run.outdir + "/emit";
    for (long cs = 0; cs < run.cases; ++cs) {
        if (run.only_case >= 0 && cs != run.only_case)
            continue;
        run.cur_case = cs;
        Rng rng(run.seed, (uint64_t)cs);
        IWorld* w = ws[(size_t)((cs + run.seed) % ws.size())];
        Registry r;
        int style = (int)rng.below(4);
        GenProfile p2 = prof;
        if (style == 0) { // many classes, few methods (classes without v-table entries)
            p2.min_classes = 8;
            p2.max_methods = 2;
        } else if (style == 1) {
            p2.lattice_bias = true; // first used slot != 0
        }
        if (rng.chance(1, thorough ? 25 : 50)) { // many classes, methods, slots and definitions
            p2.big = true;
            p2.min_classes = 66;
            p2.max_classes = MAXC - 4;
            p2.max_methods = 44;
            run.count("big-registries");
        }
        gen_graph(rng, p2, r);
        Oracle o(r);
        gen_methods(rng, p2, r, o);
        if (style == 0 && rng.chance(1, 3) && !p2.big) {
            r.methods.clear(); // no method at all: every v-table is empty
            r.method_order.clear();
        }
        assign_ids(rng, r, 1, 1); // the encoder demangles class ids: real type_info pointers
        gen_presentation(rng, r, o, (int)rng.below(NPRES));
        r.static_class[0] = (int)rng.below(r.n);
        r.static_class[1] = (int)rng.below(r.n);
        set_current_case(run, w->name(), dump_registry(r));
        w->hard_reset();
        w->materialize(r);
        CaseCtx c{run, *w, r, o, rng, ""};
        UpdateResult u;
        if (!do_update(c, u, "C13"))
            continue;
        uint64_t bseed = rng.next();
        Behaviour after_update;
        behaviour(c, bseed, 200, 0, false, after_update);
        set_stage("encode_dispatch_data");
        std::string text = w->encode(*u.compiler);
        set_stage("monitor");
        auto fail = [&](const std::string& key, const std::string& what, const std::string& e, const std::string& ob) {
            return run.violation("C13:" + key, witness_json(c, what + "; emitted text: " + text.substr(0, 2500), "", e, ob));
        };
        // the overload without a policy name emits the same data, decoded into YOMM2_DEFAULT_POLICY
        if (cs % 16 == 0) {
            std::string dflt = w->encode_for_default_policy(*u.compiler);
            std::string named = text;
            std::string call = std::string("decode_dispatch_data<") + w->name() + ">";
            size_t at = named.find(call);
            if (at != std::string::npos)
                named.replace(at, call.size(), "decode_dispatch_data<YOMM2_DEFAULT_POLICY>");
            run.evaluations++;
            if (named != dflt && run.violation("C13:default-policy-overload-emits-different-text", witness_json(c, "encode_dispatch_data(compiler, os) vs encode_dispatch_data(compiler, policy, os)", "", named.substr(named.size() > 300 ? named.size() - 300 : 0), dflt.substr(dflt.size() > 300 ? dflt.size() - 300 : 0))))
                return 1;
        }
        EncodedData d;
        std::string why;
        run.evaluations++;
        bool stop = false;
        size_t empty_vtbls = 0, nonzero_first = 0, total_cells = 0;
        for (auto& cls : u.compiler->classes) {
            empty_vtbls += cls.vtbl.empty();
            nonzero_first += cls.first_slot != 0;
            total_cells += cls.vtbl.size();
        }
        if (!parse_encoded(text, d, why)) {
            stop = fail("emitted-text-malformed:" + why, "the emitted structure", "declarations + three initialiser sections + decode call", "unparsable (" + why + ")");
        } else if (d.slots.size() > d.nslots || d.vtbls.size() > d.nvtbls || d.dtbls.size() > d.ndtbls) {
            stop = fail("more-initialisers-than-elements", "the emitted structure", "initialisers fit the declared arrays (it must compile)",
                        "slots " + std::to_string(d.slots.size()) + "/" + std::to_string(d.nslots) + " vtbls " + std::to_string(d.vtbls.size()) + "/" + std::to_string(d.nvtbls) + " dtbls " + std::to_string(d.dtbls.size()) + "/" + std::to_string(d.ndtbls));
        } else if (d.ndecoded < total_cells) {
            stop = fail("decoded-area-too-small", "std::uintptr_t vtbls[N]", "N >= " + std::to_string(total_cells) + " (sum of the v-table sizes)", std::to_string(d.ndecoded));
        } else {
            // a process that holds the registrations but never ran update
            w->forget_installed_tables(r);
            set_stage("decode_dispatch_data");
            std::string err = w->decode(d);
            set_stage("monitor");
            run.count("decodes");
            if (!err.empty()) {
                stop = fail("decoder:" + err, "decode_dispatch_data under checked iterators", "reads and writes inside the emitted arrays, no code overwritten before it is read", err);
            } else {
                bool nullp = false;
                for (int k = 0; k < r.n; ++k)
                    if (*w->static_vptr_slot(k) == nullptr)
                        nullp = true;
                if (nullp) {
                    stop = fail("class-without-vptr-after-decode", "static v-table pointers", "set for every registered class", "null");
                } else {
                    Behaviour after_decode;
                    behaviour(c, bseed, 200, 0, false, after_decode);
                    long df = first_difference(after_update, after_decode);
                    if (df >= 0)
                        stop = fail("calls-differ-after-decode", "behaviour after decode vs after update", df < (long)after_update.rows.size() ? after_update.rows[df] : "(missing)", df < (long)after_decode.rows.size() ? after_decode.rows[df] : "(missing)");
                    // next is part of how calls behave (definitions call it)
                    if (!stop) {
                        bool has_def = false, next_set = true;
                        for (auto& me : r.methods)
                            for (size_t dd = 0; dd < me.defs.size(); ++dd) {
                                has_def = true;
                                if (w->next_of(me.shape * NINST + me.inst, (int)dd) == reinterpret_cast<void*>(0xdeadbeef))
                                    next_set = false;
                            }
                        if (has_def && !next_set) {
                            run.count("next-not-installed-by-decode");
                            bool already = false;
                            for (auto& v : run.violations)
                                already |= v.key == "C13:next-not-installed-by-decode";
                            if (!already)
                                run.violation("C13:next-not-installed-by-decode", witness_json(c, "definition_info::next after decode_dispatch_data in a process that never ran update", "", "next of every definition installed (definitions that call next behave as after update)", "left untouched"));
                        }
                    }
                }
            }
        }
        if (cs < 3 && run.only_case < 0) {
            std::ofstream f(emitdir + "/encoded-" + w->name() + "-s" + std::to_string(run.seed) + "-c" + std::to_string(cs) + ".inc");
            f << text;
        }
        run.count(std::string("world.") + w->name());
        if (empty_vtbls)
            run.count("registries.with-empty-vtables");
        if (nonzero_first)
            run.count("registries.with-first-slot-nonzero");
        if (d.ndtbls)
            run.count("registries.with-multi-method-tables");
        if (!r.methods.empty())
            run.distinct.insert(registry_hash(r) ^ std::hash<std::string>()(w->name()));
        if (run.samples.size() < 2 && !r.methods.empty() && r.n <= 6)
            run.sample("{\"world\":" + jstr(w->name()) + ",\"emitted\":" + jstr(text.substr(0, 1200)) + "}");
        // leave the world as after an update (other state is rebuilt per case)
        w->hard_reset();
        if (stop)
            return 1;
    }
    return run.violations.empty() ? 0 : 1;
}

} // namespace vf

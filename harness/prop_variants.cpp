// C06 (registration order), C08 (presentations), C10 (RTTI flavours): the same
// abstract registry is materialised in several ways; the complete behaviour
// tables (calls + next) must be identical, and equal to the oracle's.
#include "monitors.hpp"

namespace vf {

static std::string diff_json(const CaseCtx& c, const std::string& what, const Behaviour& a, const Behaviour& b, long i,
                             const std::string& variant_a, const std::string& variant_b) {
    std::string ra = i < (long)a.rows.size() ? a.rows[i] : "(missing)";
    std::string rb = i < (long)b.rows.size() ? b.rows[i] : "(missing)";
    return witness_json(c, what + "; variant A = " + variant_a + "; variant B = " + variant_b, "", "A: " + ra, "B: " + rb);
}

static std::string perm_str(const std::vector<int>& v) {
    std::string s;
    for (int x : v)
        s += std::to_string(x) + " ";
    return s;
}

// ---------------------------------------------------------------------------
// C06

int prop_order(Run& run) {
    bool thorough = run.tier == "thorough";
    GenProfile prof;
    prof.min_classes = 2;
    prof.max_classes = thorough ? 12 : 8;
    prof.max_methods = 3;
    prof.max_defs = thorough ? 7 : 5;
    prof.lattice_bias = true;
    auto ws = suitable_worlds(run, false, false);
    if (ws.empty())
        return 2;
    for (long cs = 0; cs < run.cases; ++cs) {
        if (run.only_case >= 0 && cs != run.only_case)
            continue;
        run.cur_case = cs;
        Rng rng(run.seed, (uint64_t)cs);
        IWorld* w = ws[(size_t)((cs + run.seed) % ws.size())];
        Registry base;
        gen_graph(rng, prof, base);
        Oracle o(base);
        gen_methods(rng, prof, base, o);
        assign_ids(rng, base, pick_flavour(rng, w->caps()), 1);
        gen_presentation(rng, base, o, (int)rng.below(NPRES));
        base.static_class[0] = (int)rng.below(base.n);
        base.static_class[1] = (int)rng.below(base.n);
        // the variants: permutations of one of the three orders at a time, then all three
        std::vector<Registry> variants;
        variants.push_back(base);
        auto perms_of = [&](size_t n, int cap) {
            std::vector<std::vector<int>> out;
            std::vector<int> p(n);
            for (size_t i = 0; i < n; ++i)
                p[i] = (int)i;
            if (n <= 4 || (n == 5 && thorough)) {
                do
                    out.push_back(p);
                while (std::next_permutation(p.begin(), p.end()));
            } else {
                std::vector<int> r = p;
                std::reverse(r.begin(), r.end());
                out.push_back(r);
                for (size_t k = 1; k < n && (int)out.size() < cap / 2; ++k) {
                    std::vector<int> q = p;
                    std::rotate(q.begin(), q.begin() + k, q.end());
                    out.push_back(q);
                }
                while ((int)out.size() < cap) {
                    std::vector<int> q = p;
                    rng.shuffle(q);
                    out.push_back(q);
                }
            }
            return out;
        };
        int cap = thorough ? 24 : 10;
        for (auto& p : perms_of(base.records.size(), cap)) {
            Registry v = base;
            for (size_t i = 0; i < p.size(); ++i)
                v.records[i] = base.records[p[i]];
            v.pres = "records: " + perm_str(p);
            variants.push_back(v);
        }
        for (auto& p : perms_of(base.methods.size(), cap)) {
            Registry v = base;
            for (size_t i = 0; i < p.size(); ++i)
                v.method_order[i] = base.method_order[p[i]];
            v.pres = "methods: " + perm_str(p);
            variants.push_back(v);
        }
        for (size_t m = 0; m < base.methods.size(); ++m)
            for (auto& p : perms_of(base.methods[m].defs.size(), cap)) {
                Registry v = base;
                for (size_t i = 0; i < p.size(); ++i)
                    v.methods[m].def_order[i] = base.methods[m].def_order[p[i]];
                v.pres = "definitions of m" + std::to_string(m) + ": " + perm_str(p);
                variants.push_back(v);
            }
        for (int k = 0; k < (thorough ? 8 : 3); ++k) {
            Registry v = base;
            rng.shuffle(v.records);
            rng.shuffle(v.method_order);
            for (auto& me : v.methods)
                rng.shuffle(me.def_order);
            v.pres = "everything shuffled";
            variants.push_back(v);
        }
        Behaviour first;
        std::string first_name;
        bool nontrivial = count_incomparable(base, o) > 0 || has_mi(base);
        uint64_t bseed = rng.next();
        bool stop = false;
        for (size_t vi = 0; vi < variants.size() && !stop; ++vi) {
            auto& v = variants[vi];
            set_current_case(run, w->name(), dump_registry(v));
            if (vi == 0 || rng.chance(1, 2))
                w->hard_reset();
            set_stage("materialize");
            w->materialize(v);
            CaseCtx c{run, *w, v, o, rng, v.pres};
            UpdateResult u;
            if (!do_update(c, u, "C06"))
                break;
            Behaviour b;
            behaviour(c, bseed, thorough ? 512 : 200, 0, true, b);
            run.count("variants");
            if (vi == 0) {
                first = b;
                first_name = "initial order";
            } else {
                long d = first_difference(first, b);
                if (d >= 0) {
                    bool isnext = (d < (long)b.rows.size() ? b.rows[d] : first.rows[d]).find("next(") != std::string::npos;
                    stop = run.violation(std::string("C06:order-dependent:") + (isnext ? "next" : "call"),
                                         diff_json(c, "behaviour differs between registration orders", first, b, d, first_name, v.pres));
                    break;
                }
            }
        }
        run.count(std::string("world.") + w->name());
        run.count(std::string("gen.") + base.gen);
        if (nontrivial)
            run.distinct.insert(registry_hash(base));
        if (nontrivial && run.samples.size() < 2)
            run.sample("{\"world\":" + jstr(w->name()) + ",\"variants\":" + std::to_string(variants.size()) + ",\"registry\":" + dump_registry(base) + "}");
        if (stop)
            return 1;
    }
    return run.violations.empty() ? 0 : 1;
}

// ---------------------------------------------------------------------------
// C08

int prop_present(Run& run) {
    bool thorough = run.tier == "thorough";
    GenProfile prof;
    prof.min_classes = 3;
    prof.max_classes = thorough ? 32 : 14;
    prof.max_methods = thorough ? 8 : 5;
    prof.max_defs = 5;
    prof.lattice_bias = true;
    auto ws = suitable_worlds(run, false, true);
    if (ws.empty())
        return 2;
    int nvar = thorough ? 20 : 8;
    for (long cs = 0; cs < run.cases; ++cs) {
        if (run.only_case >= 0 && cs != run.only_case)
            continue;
        run.cur_case = cs;
        Rng rng(run.seed, (uint64_t)cs);
        IWorld* w = ws[(size_t)((cs + run.seed) % ws.size())];
        Registry base;
        gen_graph(rng, prof, base);
        Oracle o(base);
        gen_methods(rng, prof, base, o);
        assign_ids(rng, base, pick_flavour(rng, w->caps()), w->caps().projection ? MAXALIAS : 1);
        base.static_class[0] = (int)rng.below(base.n);
        base.static_class[1] = (int)rng.below(base.n);
        uint64_t bseed = rng.next();
        Behaviour expected;
        oracle_behaviour(base, o, bseed, thorough ? 512 : 200, true, expected);
        Behaviour first;
        bool stop = false;
        int depth = 0; // longest inheritance chain, presentations only matter with indirect bases
        for (int a = 0; a < base.n; ++a)
            for (int b = 0; b < base.n; ++b)
                if (o.proper(a, b) && std::find(base.bases[a].begin(), base.bases[a].end(), b) == base.bases[a].end())
                    depth = 1;
        for (int vi = 0; vi < nvar && !stop; ++vi) {
            Registry v = base;
            int kind = vi == 0 ? 0 : vi < NPRES ? vi : (int)rng.below(NPRES);
            gen_presentation(rng, v, o, kind);
            set_current_case(run, w->name(), dump_registry(v));
            if (vi == 0 || rng.chance(1, 2))
                w->hard_reset();
            set_stage("materialize");
            w->materialize(v);
            CaseCtx c{run, *w, v, o, rng, v.pres};
            UpdateResult u;
            if (!do_update(c, u, "C08"))
                break;
            run.count(std::string("presentation.") + v.pres);
            Behaviour b;
            behaviour(c, bseed, thorough ? 512 : 200, vi, true, b);
            long d = first_difference(expected, b);
            if (d >= 0) {
                stop = run.violation(std::string("C08:differs-from-complete-registration:") + presentation_name(kind),
                                     diff_json(c, "behaviour under this presentation differs from the inheritance relation's", expected, b, d, "oracle on the true graph", v.pres));
                break;
            }
            if (vi == 0)
                first = b;
            if (monitor_walk(c, u, "C08")) {
                stop = true;
                break;
            }
        }
        run.count(std::string("world.") + w->name());
        run.count(std::string("gen.") + base.gen);
        if (depth && has_mi(base))
            run.count("graphs.mi-with-indirect-bases");
        if (depth)
            run.distinct.insert(registry_hash(base));
        if (depth && run.samples.size() < 2)
            run.sample("{\"world\":" + jstr(w->name()) + ",\"presentations\":" + std::to_string(nvar) + ",\"registry\":" + dump_registry(base) + "}");
        if (stop)
            return 1;
    }
    return run.violations.empty() ? 0 : 1;
}

// ---------------------------------------------------------------------------
// C10

int prop_rtti(Run& run) {
    bool thorough = run.tier == "thorough";
    GenProfile prof;
    prof.min_classes = 2;
    prof.max_classes = thorough ? 24 : 12;
    prof.max_methods = 4;
    prof.max_defs = 5;
    // (world, id flavour, aliases): each RTTI facet shape, with and without hash
    struct Var {
        const char* world;
        int flavour;
        int aliases;
    };
    static const Var vars[] = {
        {"P_rel", 0, 1},  {"P_rel", 1, 1},   {"P_dbg", 4, 1},  {"P_vec", 0, 1},   {"P_map", 1, 1},  {"P_map", 2, 1},
        {"P_proj", 5, 3}, {"P_projm", 5, 3}, {"P_projv", 6, 3}, {"P_def", 0, 1},  {"P_def", 1, 1},   {"P_ind", 3, 1},  {"P_indc", 4, 1},
    };
    for (long cs = 0; cs < run.cases; ++cs) {
        if (run.only_case >= 0 && cs != run.only_case)
            continue;
        run.cur_case = cs;
        Rng rng(run.seed, (uint64_t)cs);
        Registry base;
        gen_graph(rng, prof, base);
        Oracle o(base);
        gen_methods(rng, prof, base, o);
        base.static_class[0] = (int)rng.below(base.n);
        base.static_class[1] = (int)rng.below(base.n);
        uint64_t bseed = rng.next();
        Behaviour expected;
        oracle_behaviour(base, o, bseed, thorough ? 400 : 150, true, expected);
        bool stop = false;
        int pres = (int)rng.below(NPRES);
        for (auto& var : vars) {
            IWorld* w = find_world(var.world);
            if (!w || !run.want_policy(var.world))
                continue;
            Registry v = base;
            assign_ids(rng, v, var.flavour, var.aliases);
            gen_presentation(rng, v, o, pres);
            set_current_case(run, w->name(), dump_registry(v));
            w->hard_reset();
            set_stage("materialize");
            w->materialize(v);
            int updates = rng.range(1, 3);
            for (int k = 0; k < updates && !stop; ++k) {
                CaseCtx c{run, *w, v, o, rng, std::string("ids ") + idflavour_name(var.flavour) + ", update #" + std::to_string(k + 1)};
                UpdateResult u;
                if (!do_update(c, u, "C10"))
                    break;
                run.count(std::string("flavour.") + var.world + "/" + idflavour_name(var.flavour));
                // every id of a class must reach the class's definitions
                int rounds = var.aliases > 1 ? MAXALIAS : 1;
                for (int al = 0; al < rounds && !stop; ++al) {
                    Behaviour b;
                    behaviour(c, bseed, thorough ? 400 : 150, al, true, b);
                    long d = first_difference(expected, b);
                    if (d >= 0) {
                        stop = run.violation(std::string("C10:differs:") + var.world + ":" + idflavour_name(var.flavour) + (k ? ":repeated-update" : "") + (al ? ":alias-id" : ""),
                                             diff_json(c, "behaviour under this RTTI flavour differs", expected, b, d, "oracle", c.label));
                    }
                }
            }
            if (stop)
                break;
        }
        run.count(std::string("gen.") + base.gen);
        if (!base.methods.empty())
            run.distinct.insert(registry_hash(base));
        if (run.samples.size() < 2)
            run.sample("{\"flavours\":" + std::to_string(sizeof(vars) / sizeof(vars[0])) + ",\"registry\":" + dump_registry(base) + "}");
        if (stop)
            return 1;
    }
    return run.violations.empty() ? 0 : 1;
}

} // namespace vf

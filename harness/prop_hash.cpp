// C05: the type-id hash is perfect on registered ids; the checked variant
// rejects everything else; exhaustion is reported, never a colliding install.
#include "monitors.hpp"

#include <csignal>
#include <fcntl.h>
#include <sys/resource.h>
#include <sys/wait.h>
#include <unistd.h>

namespace vf {

static uint64_t inv64(uint64_t a) { // inverse of an odd number modulo 2^64
    uint64_t x = a;
    for (int i = 0; i < 6; ++i)
        x *= 2 - a * x;
    return x;
}

static const char* set_flavour_name(int f) {
    static const char* n[] = {"clustered-pointers", "regular-strides", "high-bits-only", "small-integers", "random64", "typeinfo-like", "bit63-pairs"};
    return n[f];
}

static std::vector<type_id> gen_ids(Rng& rng, int flavour, int n) {
    std::set<type_id> s;
    uint64_t base = 0x550000000000ull + (rng.next() & 0xfffffff000ull);
    int j = rng.range(0, 20);
    uint64_t low = rng.next() & 0xffff;
    uint64_t k = 0;
    // (bounded: a flavour whose ids wrap around cannot produce more than so many distinct values)
    while ((int)s.size() < n && k < 200000) {
        type_id id = 0;
        switch (flavour) {
        case 0: // heap / data segment like: base + multiples of 8..64 with gaps
            id = base + k * (uint64_t)(8 << (j % 4)) + (rng.chance(1, 4) ? 8 * rng.below(4) : 0);
            break;
        case 1:
            id = base + (k << j);
            break;
        case 2:
            id = ((uint64_t)(k + 1) << (44 + j % 10)) | low; // (up to 1023 values fit below bit 64)
            break;
        case 3:
            id = (type_id)(k + (rng.chance(1, 5) ? rng.below(3) : 0));
            break;
        case 4:
            id = rng.next();
            break;
        case 5: // type_info objects in .data.rel.ro: 16 or 24 byte objects, mixed
            id = base + k * 16 + (rng.chance(1, 3) ? 8 : 0);
            break;
        case 6: // pairs of ids that differ only in the top bit; id 0 and the largest legal id included
            id = (base + (k / 2) * 24) | ((k & 1) << 63);
            if (k == 0 && rng.chance(1, 2))
                id = 0;
            if (k == 1 && rng.chance(1, 2))
                id = yorel::yomm2::invalid_type - 1;
            break;
        }
        ++k;
        if (id == yorel::yomm2::invalid_type)
            continue;
        s.insert(id);
    }
    std::vector<type_id> v(s.begin(), s.end());
    rng.shuffle(v);
    return v;
}

static std::string ids_json(const std::vector<type_id>& ids, size_t max = 24) {
    std::string s = "[";
    for (size_t i = 0; i < ids.size() && i < max; ++i)
        s += (i ? "," : "") + ("\"" + hex(ids[i]) + "\"");
    if (ids.size() > max)
        s += ",\"...(" + std::to_string(ids.size()) + " ids)\"";
    return s + "]";
}

struct HashCase {
    Run& run;
    IWorld& w;
    std::string history; // json list of steps so far
};

static bool hfail(HashCase& hc, const std::string& key, const std::string& what, const std::vector<type_id>& ids,
                  const std::string& expected, const std::string& observed) {
    return hc.run.violation("C05:" + key, "{\"world\":" + jstr(hc.w.name()) + ",\"what\":" + jstr(what) + ",\"ids\":" + ids_json(ids, 700) +
                                              ",\"history\":[" + hc.history + "],\"expected\":" + jstr(expected) + ",\"observed\":" + jstr(observed) + "}");
}

// after a successful initialisation: injective, in range, checked variant rejects the rest
static bool verify_hash(HashCase& hc, Rng& rng, const std::vector<type_id>& ids, const std::vector<type_id>& stale, bool via_update) {
    type_id mult;
    size_t shift, length, vsize, csize;
    if (!hc.w.hash_info(mult, shift, length, vsize, csize))
        return false;
    Caps caps = hc.w.caps();
    std::map<type_id, type_id> by_index;
    std::set<type_id> reg(ids.begin(), ids.end());
    for (auto id : ids) {
        type_id idx = 0;
        Outcome o = hc.w.hash_id(id, idx);
        hc.run.evaluations++;
        if (o.kind != Outcome::RAN)
            return hfail(hc, "registered-id-rejected", "hash_type_id of a registered id " + hex(id), ids, "an index", o.str());
        if (idx >= length)
            return hfail(hc, "index-out-of-range", "hash_type_id(" + hex(id) + ")", ids, "index < hash_length " + std::to_string(length), std::to_string(idx));
        if (via_update && !caps.map && idx >= vsize) // (a v-table pointer map is keyed by id, not by index)
            return hfail(hc, "index-beyond-vptr-vector", "hash_type_id(" + hex(id) + ")", ids, "index < vptrs.size() " + std::to_string(vsize), std::to_string(idx));
        if (caps.checked && idx >= csize)
            return hfail(hc, "index-beyond-control", "hash_type_id(" + hex(id) + ")", ids, "index < control.size() " + std::to_string(csize), std::to_string(idx));
        if (by_index.count(idx))
            return hfail(hc, "collision", "two registered ids share an index", ids, "distinct indexes",
                         hex(by_index[idx]) + " and " + hex(id) + " -> " + std::to_string(idx));
        by_index[idx] = id;
    }
    if (!caps.checked)
        return false;
    // probes: unregistered ids must be reported as unknown classes carrying that id
    std::vector<type_id> probes = {0, yorel::yomm2::invalid_type, 1, (type_id)-2};
    for (auto id : stale)
        probes.push_back(id);
    for (size_t i = 0; i < ids.size() && i < 40; ++i) {
        type_id id = ids[rng.below(ids.size())];
        probes.push_back(id + 1);
        probes.push_back(id - 1);
        probes.push_back(id + 8);
        probes.push_back(id - 8);
        probes.push_back(id ^ ((type_id)1 << rng.below(64)));
    }
    if (shift > 0 && shift < 64 && (mult & 1)) {
        uint64_t inv = inv64(mult);
        // ids that land in an occupied bucket, and ids that land in random (often empty) buckets
        for (auto& kv : by_index) {
            if (probes.size() > 400)
                break;
            uint64_t low = rng.next() & (((uint64_t)1 << shift) - 1);
            probes.push_back(inv * ((kv.first << shift) | low));
        }
        for (int i = 0; i < 40; ++i) {
            uint64_t idx = rng.below(length + 2);
            uint64_t low = rng.next() & (((uint64_t)1 << shift) - 1);
            probes.push_back(inv * ((idx << shift) | low));
        }
    }
    for (auto p : probes) {
        if (reg.count(p))
            continue;
        type_id idx = 0;
        Outcome o = hc.w.hash_id(p, idx);
        hc.run.evaluations++;
        hc.run.count("probes.unregistered");
        if (o.kind != Outcome::UNKNOWN_CLASS)
            return hfail(hc, std::string("unregistered-id-accepted") + (p == yorel::yomm2::invalid_type ? ":invalid_type" : p == 0 ? ":zero" : std::find(stale.begin(), stale.end(), p) != stale.end() ? ":stale" : ""),
                         "checked hash_type_id of the unregistered id " + hex(p), ids, "unknown_class_error type=" + hex(p), o.kind == Outcome::RAN ? "index " + std::to_string(idx) : o.str());
        if (o.etype != p)
            return hfail(hc, "unknown-class-wrong-id", "checked hash_type_id of the unregistered id " + hex(p), ids, "type=" + hex(p), o.str());
    }
    return false;
}

int prop_hash(Run& run) {
    bool thorough = run.tier == "thorough";
    std::vector<IWorld*> ws;
    for (auto w : worlds())
        if (w->caps().hash && !w->caps().deferred && !w->caps().projection && run.want_policy(w->name()))
            ws.push_back(w);
    if (ws.empty())
        return 2;
    for (long cs = 0; cs < run.cases; ++cs) {
        if (run.only_case >= 0 && cs != run.only_case)
            continue;
        run.cur_case = cs;
        Rng rng(run.seed, (uint64_t)cs);
        IWorld* w = ws[(size_t)((cs + run.seed) % ws.size())];
        HashCase hc{run, *w, ""};
        bool pristine = rng.chance(1, 2); // the policy starts without any installed hash
        if (pristine)
            w->hard_reset();
        w->set_hash_budget(100000);
        std::map<type_id, type_id> installed; // id -> index of the last successful initialisation of this case
        int mode = (int)rng.below(10); // 0-5 direct histories, 6-7 through update, 8 budget, 9 forked exhaustion
        if (mode <= 5 || mode == 8) {
            int steps = rng.range(1, thorough ? 10 : 6);
            std::vector<type_id> cur, stale;
            int flavour = (int)rng.below(7);
            static const int boundary_sizes[] = {1, 2, 3, 4, 5, 7, 8, 9, 12, 13, 15, 16, 17, 25, 26, 31, 32, 33, 51, 52, 63, 64, 65, 102, 103, 127, 128, 129, 204, 205, 255, 256, 257};
            for (int st = 0; st < steps; ++st) {
                int op = st == 0 ? 0 : (int)rng.below(6); // 0 fresh, 1 grow, 2 shrink, 3 disjoint same flavour, 4 empty, 5 same again
                std::vector<type_id> prev = cur;
                int maxn = thorough ? 600 : 200;
                int n = rng.chance(1, 3) ? rng.range(0, 8) : rng.chance(1, 2) ? rng.range(0, 60) : rng.range(0, maxn);
                if (rng.chance(1, 4)) { // sizes around powers of two and around the 5/4 rounding of the bucket count
                    n = boundary_sizes[rng.below(sizeof(boundary_sizes) / sizeof(int))];
                    if (n > maxn)
                        n = maxn;
                }
                if (flavour == 4 && n > 40)
                    n = rng.range(0, 40); // random ids: keep the search feasible
                switch (op) {
                case 0:
                    flavour = (int)rng.below(7);
                    if (flavour == 4 && n > 40)
                        n = rng.range(0, 40);
                    cur = gen_ids(rng, flavour, n);
                    break;
                case 1: {
                    auto more = gen_ids(rng, flavour, (int)cur.size() + rng.range(1, 20));
                    for (auto id : more)
                        if (std::find(cur.begin(), cur.end(), id) == cur.end() && cur.size() < (size_t)maxn)
                            cur.push_back(id);
                    break;
                }
                case 2:
                    rng.shuffle(cur);
                    cur.resize(cur.size() - rng.below(cur.size() + 1));
                    break;
                case 3:
                    cur = gen_ids(rng, flavour, n);
                    break;
                case 4:
                    cur.clear();
                    break;
                }
                for (auto id : prev)
                    if (std::find(cur.begin(), cur.end(), id) == cur.end())
                        stale.push_back(id);
                stale.erase(std::remove_if(stale.begin(), stale.end(), [&](type_id x) { return std::find(cur.begin(), cur.end(), x) != cur.end(); }), stale.end());
                if (stale.size() > 200)
                    stale.erase(stale.begin(), stale.begin() + (stale.size() - 200));
                size_t budget = 100000;
                if (mode == 8) {
                    budget = rng.chance(1, 2) ? 1 : (size_t)rng.range(1, 50);
                    if (!w->set_hash_budget(budget)) {
                        run.inconclusive["budget-hook-absent"]++;
                        budget = 100000;
                    }
                }
                // group ids into classes (1-3 ids per class)
                std::vector<std::vector<type_id>> classes;
                for (size_t i = 0; i < cur.size();) {
                    size_t k = rng.chance(1, 5) ? rng.range(2, 3) : 1;
                    classes.emplace_back();
                    for (size_t q = 0; q < k && i < cur.size(); ++q)
                        classes.back().push_back(cur[i++]);
                }
                // entries that repeat an id of an earlier entry next to ids of their own (a class
                // registered by two modules, each with an alias of its own; the same registration
                // listed twice): hash_initialize accepts any range of runtime classes
                if (!cur.empty() && rng.chance(1, 4)) {
                    int extra = rng.range(1, 3);
                    for (int e = 0; e < extra && cur.size() < (size_t)maxn; ++e) {
                        type_id known = cur[rng.below(cur.size())];
                        std::vector<type_id> entry = {known};
                        if (rng.chance(2, 3)) {
                            type_id fresh = known ^ (type_id(1) << rng.range(3, 40)) ^ type_id(rng.range(1, 7));
                            if (fresh != 0 && fresh != yorel::yomm2::invalid_type && std::find(cur.begin(), cur.end(), fresh) == cur.end()) {
                                if (rng.chance(1, 2))
                                    entry.push_back(fresh);
                                else
                                    entry.insert(entry.begin(), fresh);
                                cur.push_back(fresh);
                            }
                        }
                        classes.push_back(entry);
                    }
                    stale.erase(std::remove_if(stale.begin(), stale.end(), [&](type_id x) { return std::find(cur.begin(), cur.end(), x) != cur.end(); }), stale.end());
                    run.count("steps.with-entries-sharing-an-id");
                }
                static const char* opn[] = {"fresh", "grow", "shrink", "disjoint", "empty", "same"};
                hc.history += std::string(hc.history.empty() ? "" : ",") + "{\"op\":\"" + opn[op] + "\",\"flavour\":\"" + set_flavour_name(flavour) +
                              "\",\"n\":" + std::to_string(cur.size()) + ",\"budget\":" + std::to_string(budget) + "}";
                set_current_case(run, w->name(), "{\"ids\":" + ids_json(cur, 700) + ",\"history\":[" + hc.history + "]}");
                set_stage("hash_initialize");
                Outcome o = w->hash_init(classes);
                set_stage("monitor");
                run.count(std::string("sets.") + set_flavour_name(flavour));
                run.count(std::string("steps.") + opn[op]);
                if (o.kind == Outcome::HASH_ERR) {
                    run.count(budget < 100000 ? "search-exhausted.small-budget" : "search-exhausted.default-budget");
                    if (budget < 100000 && !cur.empty())
                        run.distinct.insert(std::hash<std::string>()(ids_json(cur, 700)) ^ 0x5bd1e995);
                    // The search failed and said so: no hash was installed for this set.  Whatever the
                    // checked hash still accepts can only belong to the previous successful
                    // initialisation (same id, same index): anything else maps an id into a v-table
                    // pointer vector that was laid out for other ids.
                    if (w->caps().checked && pristine) {
                        std::vector<type_id> probe = cur;
                        probe.insert(probe.end(), stale.begin(), stale.end());
                        probe.insert(probe.end(), prev.begin(), prev.end());
                        for (auto id : probe) {
                            type_id idx = 0;
                            set_stage("hash_type_id-after-failed-search");
                            Outcome ho = w->hash_id(id, idx);
                            set_stage("monitor");
                            run.evaluations++;
                            if (ho.kind != Outcome::RAN)
                                continue;
                            auto it = installed.find(id);
                            if (it == installed.end() || it->second != idx) {
                                if (hfail(hc, "id-accepted-after-failed-search", "hash_type_id(" + hex(id) + ") after hash_initialize reported hash_search_error", cur,
                                          it == installed.end() ? "unknown_class_error (the id does not belong to any installed hash)" : "unknown_class_error or its index " + std::to_string(it->second) + " of the last installed hash",
                                          "index " + std::to_string(idx)))
                                    return 1;
                                break;
                            }
                        }
                        run.count("failed-search-followed-by-probes");
                    }
                    break; // beyond that the hash state is unspecified after a failed search
                }
                if (o.kind != Outcome::RAN) {
                    if (hfail(hc, "unexpected-error", "hash_initialize", cur, "perfect hash or hash_search_error", o.str()))
                        return 1;
                    break;
                }
                if (verify_hash(hc, rng, cur, stale, false))
                    return 1;
                installed.clear();
                for (auto id : cur) {
                    type_id idx = 0;
                    if (w->hash_id(id, idx).kind == Outcome::RAN)
                        installed[id] = idx;
                }
                if (cur.size() >= 2)
                    run.distinct.insert(std::hash<std::string>()(ids_json(cur, 700)));
                if (run.samples.size() < 3 && cur.size() >= 3 && cur.size() <= 12)
                    run.sample("{\"world\":" + jstr(w->name()) + ",\"ids\":" + ids_json(cur) + ",\"history\":[" + hc.history + "]}");
            }
            w->set_hash_budget(100000);
        } else if (mode <= 7) {
            // through update: indexes hold the class's v-table pointer, histories of registries
            GenProfile prof;
            prof.max_classes = thorough ? 40 : 20;
            prof.max_methods = 2;
            prof.max_defs = 2;
            int steps = rng.range(1, 4);
            std::vector<type_id> stale;
            for (int st = 0; st < steps; ++st) {
                int flavour = pick_flavour(rng, w->caps());
                Registry r = gen_registry(rng, prof, (int)rng.below(NPRES), flavour);
                if (st > 0 && rng.chance(1, 4)) { // everything unregistered, then update
                    r.records.clear();
                    r.methods.clear();
                    r.method_order.clear();
                }
                set_current_case(run, w->name(), dump_registry(r));
                w->materialize(r);
                Oracle o(r);
                CaseCtx c{run, *w, r, o, rng, "history step " + std::to_string(st)};
                UpdateResult u;
                if (!do_update(c, u, "C05"))
                    break;
                std::vector<type_id> ids;
                std::set<int> live;
                for (auto& rec : r.records)
                    live.insert(rec.cls);
                for (int k : live)
                    ids.push_back(r.ids[k][0]);
                hc.history += std::string(hc.history.empty() ? "" : ",") + "{\"op\":\"update\",\"classes\":" + std::to_string(ids.size()) + ",\"flavour\":" + jstr(r.idflavour) + "}";
                for (int k : live) {
                    const std::uintptr_t* vp = nullptr;
                    Outcome lo = w->try_lookup(r.ids[k][0], vp);
                    run.evaluations++;
                    if (lo.kind != Outcome::RAN || vp != *w->static_vptr_slot(k)) {
                        if (hfail(hc, "index-holds-foreign-vptr", "dynamic_vptr of registered id " + hex(r.ids[k][0]), ids, "the class's v-table pointer", lo.kind != Outcome::RAN ? lo.str() : "another pointer"))
                            return 1;
                        break;
                    }
                }
                if (verify_hash(hc, rng, ids, stale, true))
                    return 1;
                run.count("steps.update");
                if (ids.size() >= 2)
                    run.distinct.insert(std::hash<std::string>()(ids_json(ids, 700)) ^ 0x77);
                stale = ids;
            }
        } else {
            // exhaustion with a handler that returns: the process must abort, never continue
            // with a colliding hash
            if (w->caps().throws || !w->set_hash_budget(1)) {
                run.inconclusive["exhaustion-abort-not-applicable"]++;
                continue;
            }
            auto ids = gen_ids(rng, 4, rng.range(30, 60));
            std::vector<std::vector<type_id>> classes;
            for (auto id : ids)
                classes.push_back({id});
            auto* page = shared_page();
            memset((void*)page, 0, sizeof *page);
            fflush(stdout);
            pid_t pid = fork();
            if (pid == 0) {
                signal(SIGABRT, SIG_DFL);
                struct rlimit rl = {0, 0};
                setrlimit(RLIMIT_CORE, &rl);
                int fd = open("/dev/null", O_WRONLY);
                if (fd >= 0)
                    dup2(fd, 2);
                w->set_handler(rng.chance(1, 2) ? H_RETURN : H_DEFAULT);
                Outcome o = w->hash_init(classes);
                page->stage = 99;
                _exit(0);
            }
            int stt = 0;
            waitpid(pid, &stt, 0);
            w->set_hash_budget(100000);
            run.evaluations++;
            run.count("exhaustion.forked");
            if (WIFSIGNALED(stt) && WTERMSIG(stt) == SIGABRT) {
                run.count("exhaustion.aborted");
                run.distinct.insert(std::hash<std::string>()(ids_json(ids, 700)) ^ 0x1234);
            } else if (WIFEXITED(stt) && WEXITSTATUS(stt) == 0 && page->handler_calls == 0) {
                run.inconclusive["exhaustion-search-succeeded-with-budget-1"]++;
            } else {
                if (hfail(hc, "exhaustion-continues", "search exhausted, handler returned", ids, "abort", WIFSIGNALED(stt) ? "signal " + std::to_string(WTERMSIG(stt)) : "exit " + std::to_string(WEXITSTATUS(stt)) + " after " + std::to_string(page->handler_calls) + " handler calls"))
                    return 1;
            }
        }
    }
    return run.violations.empty() ? 0 : 1;
}

} // namespace vf

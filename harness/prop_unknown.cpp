// C15: with a checked policy every use of an unregistered class is reported as
// unknown_class_error carrying that class's id - at update time (listed base,
// method parameter, definition parameter) and at call time (dynamic class of a
// virtual argument, on every route, virtual_ptr construction included); final
// on an object of another dynamic type is a method_table_error.  Nothing runs
// and no table is read first.
#include "monitors.hpp"

namespace vf {

static bool is_id_of(const Registry& r, int cls, type_id id) {
    for (auto x : r.ids[cls])
        if (x == id)
            return true;
    return false;
}

int prop_unknown(Run& run) {
    bool thorough = run.tier == "thorough";
    GenProfile prof;
    prof.min_classes = 3;
    prof.max_classes = thorough ? 16 : 10;
    prof.max_methods = 4;
    prof.max_defs = 4;
    std::vector<IWorld*> ws;
    for (auto w : worlds())
        if (w->caps().checked && !w->caps().map && run.want_policy(w->name())) // the stock checked configuration: checked hash + v-table pointer vector
            ws.push_back(w);
    if (ws.empty())
        return 2;
    for (long cs = 0; cs < run.cases; ++cs) {
        if (run.only_case >= 0 && cs != run.only_case)
            continue;
        run.cur_case = cs;
        Rng rng(run.seed, (uint64_t)cs);
        IWorld* w = ws[(size_t)((cs + run.seed) % ws.size())];
        Registry full;
        gen_graph(rng, prof, full);
        Oracle o(full);
        gen_methods(rng, prof, full, o);
        assign_ids(rng, full, pick_flavour(rng, w->caps()), w->caps().projection ? MAXALIAS : 1);
        gen_presentation(rng, full, o, (int)rng.below(NPRES));
        full.static_class[0] = (int)rng.below(full.n);
        full.static_class[1] = (int)rng.below(full.n);
        bool stop = false;
        auto fail = [&](CaseCtx& c, const std::string& key, const std::string& what, const std::string& call, const std::string& e, const std::string& ob) {
            return run.violation("C15:" + key, witness_json(c, what, call, e, ob));
        };
        // ---- every class in turn is the one left out --------------------------------
        std::vector<int> order;
        for (int k = 0; k < full.n; ++k)
            order.push_back(k);
        rng.shuffle(order);
        int budget = thorough ? 8 : 4;
        for (int xi = 0; xi < (int)order.size() && xi < budget && !stop; ++xi) {
            int X = order[xi];
            bool leaf = true;
            for (int d = 0; d < full.n; ++d)
                if (o.proper(d, X))
                    leaf = false;
            Registry r = full;
            r.records.clear();
            bool listed_elsewhere = false;
            for (auto& rec : full.records) {
                if (rec.cls == X)
                    continue;
                r.records.push_back(rec);
                for (int b : rec.listed)
                    listed_elsewhere |= b == X;
            }
            bool in_method = false, in_def = false;
            if (leaf && rng.chance(2, 3)) {
                // call-time case: nothing registered mentions X
                for (auto& me : r.methods) {
                    for (int x : me.vp)
                        if (x == X)
                            me.attached = false;
                    for (size_t d = 0; d < me.defs.size(); ++d)
                        for (int x : me.defs[d].vp)
                            if (x == X)
                                me.def_live[d] = false;
                }
            }
            for (auto& me : r.methods) {
                if (!me.attached)
                    continue;
                for (int x : me.vp)
                    in_method |= x == X;
                for (size_t d = 0; d < me.defs.size(); ++d)
                    if (me.def_live[d])
                        for (int x : me.defs[d].vp)
                            in_def |= x == X;
            }
            if (r.static_class[1] == X)
                r.static_class[1] = r.static_class[0];
            bool static_exact = rng.chance(1, 2);
            if (r.static_class[0] == X && !static_exact)
                r.static_class[0] = (X + 1) % r.n;
            if (static_exact && leaf && !in_method && !in_def)
                r.static_class[0] = X; // objects of X are then "of exactly the static type"
            set_current_case(run, w->name(), "{\"left_out\":" + std::to_string(X) + ",\"registry\":" + dump_registry(r) + "}");
            w->hard_reset();
            // in a third of the cases the class *was* registered when an earlier update ran and its
            // registration was removed since (a plug-in unloaded): it is unregistered all the same
            bool registered_before = rng.chance(1, 3);
            if (registered_before) {
                Registry before = full;
                before.static_class[0] = r.static_class[0];
                before.static_class[1] = r.static_class[1];
                set_stage("materialize-earlier-registry");
                w->materialize(before);
                set_stage("earlier-update");
                UpdateResult u0 = w->update();
                if (!u0.ok) {
                    registered_before = false;
                    w->hard_reset();
                } else {
                    run.count("class-registered-during-an-earlier-update");
                }
            }
            set_stage("materialize");
            w->materialize(r);
            CaseCtx c{run, *w, r, o, rng, "class " + std::to_string(X) + (registered_before ? " is no longer registered (it was when an earlier update ran)" : " is not registered")};
            set_stage("update");
            UpdateResult u = w->update();
            set_stage("monitor");
            run.evaluations++;
            if (listed_elsewhere || in_method || in_def) {
                // update time
                const char* place = listed_elsewhere ? "listed-base" : in_method ? "method-parameter" : "definition-parameter";
                run.count(std::string("update-time.") + place);
                if (u.ok) {
                    stop = fail(c, std::string("update-accepts-unregistered-class:") + place, std::string("update with a class used as ") + place + " but never registered", "", "unknown_class_error type=" + hex(full.ids[X][0]), "update succeeded");
                } else if (u.err.kind == Outcome::HASH_ERR) {
                    run.inconclusive["hash_search_error"]++;
                } else if (u.err.kind != Outcome::UNKNOWN_CLASS || !is_id_of(full, X, u.err.etype)) {
                    // another unregistered use may legitimately be met first only if it is X too
                    stop = fail(c, std::string("update-reports-wrong-error:") + place, "update with class " + std::to_string(X) + " unregistered", "", "unknown_class_error type=" + hex(full.ids[X][0]), u.err.str());
                }
                run.distinct.insert(registry_hash(r) * 31 + X);
                continue;
            }
            // call time: X appears nowhere in the registrations
            if (!u.ok) {
                if (u.err.kind == Outcome::HASH_ERR)
                    run.inconclusive["hash_search_error"]++;
                else
                    stop = fail(c, "update-error-on-legal-registry", "update", "", "success", u.err.str());
                continue;
            }
            for (size_t m = 0; m < r.methods.size() && !stop; ++m) {
                auto& me = r.methods[m];
                if (!me.attached)
                    continue;
                const char* sig = g_shapes[me.shape].sig;
                for (size_t pos = 0; pos < me.vp.size() && !stop; ++pos) {
                    if (!o.derives(X, me.vp[pos]))
                        continue;
                    // other positions: registered concrete classes
                    std::vector<int> t(me.vp.size());
                    bool ok = true;
                    for (size_t i = 0; i < me.vp.size(); ++i) {
                        if (i == pos) {
                            t[i] = X;
                            continue;
                        }
                        std::vector<int> cand;
                        for (int k : o.acceptable(me, (int)i))
                            if (k != X && !r.abstract_[k])
                                cand.push_back(k);
                        if (cand.empty()) {
                            ok = false;
                            break;
                        }
                        t[i] = cand[rng.below(cand.size())];
                    }
                    if (!ok)
                        continue;
                    // which parameter kind sits at this virtual position
                    char kind = '?';
                    int vi = 0;
                    for (int i = 0; sig[i]; ++i)
                        if (sig[i] >= 'A' && sig[i] <= 'Z') {
                            if (vi == (int)pos)
                                kind = sig[i];
                            ++vi;
                        }
                    bool vp = kind == 'Q' || kind == 'K' || kind == 'H' || kind == 'J';
                    std::vector<int> routes = vp ? std::vector<int>{RT_PLAIN, RT_COPY, RT_CONV_COPY, RT_CONV_MOVE, RT_MOVE} : std::vector<int>{RT_PLAIN, RT_FROM_D};
                    if (vp && kind != 'H' && kind != 'J')
                        routes.push_back(RT_FROM_D);
                    if (vp && r.static_class[0] == X)
                        routes.push_back(RT_FINAL);
                    for (int route : routes) {
                        CallSpec csx{};
                        for (size_t i = 0; i < t.size(); ++i) {
                            csx.tuple[i] = t[i];
                            csx.alias[i] = (int)rng.below(r.ids[t[i]].size());
                            csx.route[i] = RT_PLAIN;
                        }
                        csx.route[pos] = route;
                        if (route == RT_FINAL)
                            csx.alias[pos] = 0;
                        csx.nvseed = rng.next();
                        set_stage("call-with-unregistered-class");
                        Outcome out = w->call(r, (int)m, csx);
                        set_stage("monitor");
                        run.evaluations++;
                        std::string rt = std::string(1, kind) + ":" + (route == RT_PLAIN ? (vp ? (r.static_class[0] == X ? "virtual_ptr-from-exact-type" : "virtual_ptr-from-base-reference") : "plain") : route == RT_FINAL ? "final" : route == RT_FROM_D ? "from-derived-object" : route == RT_COPY ? "copy" : route == RT_MOVE ? "move" : "converting");
                        run.count("call-time." + rt);
                        type_id want = r.ids[X][csx.alias[pos]];
                        if (!out.events.empty())
                            stop = fail(c, "definition-ran-with-unregistered-class:" + rt, "call with an object of the unregistered class at virtual position " + std::to_string(pos), call_json(r, (int)m, csx), "unknown_class_error type=" + hex(want) + " and no definition", out.str());
                        else if (out.kind == Outcome::OTHER_ERR && out.status == -2)
                            stop = fail(c, "virtual_ptr-to-unregistered-class-constructed:" + rt, "virtual_ptr construction for an object of the unregistered class", call_json(r, (int)m, csx), "unknown_class_error type=" + hex(want), "constructed, with a null or foreign v-table pointer");
                        else if (out.kind != Outcome::UNKNOWN_CLASS)
                            stop = fail(c, "unregistered-class-not-reported:" + rt, "call with an object of the unregistered class at virtual position " + std::to_string(pos), call_json(r, (int)m, csx), "unknown_class_error type=" + hex(want), out.str());
                        else if (out.etype != want)
                            stop = fail(c, "unknown-class-error-carries-wrong-id:" + rt, "call with an object of the unregistered class", call_json(r, (int)m, csx), "type=" + hex(want), out.str());
                        if (stop)
                            break;
                    }
                }
            }
            run.distinct.insert(registry_hash(r) * 31 + X);
            if (run.samples.size() < 2 && !r.methods.empty())
                run.sample("{\"world\":" + jstr(w->name()) + ",\"left_out\":" + std::to_string(X) + ",\"registry\":" + dump_registry(r) + "}");
        }
        // ---- final on an object of another dynamic type -----------------------------
        if (!stop) {
            Registry r = full;
            set_current_case(run, w->name(), dump_registry(r));
            w->hard_reset();
            w->materialize(r);
            CaseCtx c{run, *w, r, o, rng, "final"};
            UpdateResult u;
            if (do_update(c, u, "C15")) {
                for (int k = 0; k < r.n && !stop; ++k) {
                    if (k == r.static_class[0])
                        continue;
                    for (int shared = 0; shared < 2 && !stop; ++shared) {
                        set_stage("final");
                        VptrProbe pr = w->probe_vptr(r, k, 0, RT_FINAL, shared != 0);
                        set_stage("monitor");
                        run.evaluations++;
                        run.count(shared ? "final.shared" : "final.plain");
                        if (pr.out.kind != Outcome::TABLE_ERR)
                            stop = fail(c, std::string("final-accepts-other-dynamic-type:") + (shared ? "shared" : "plain"), "virtual_ptr<Node>::final on an object whose dynamic class is " + std::to_string(k) + " (static class " + std::to_string(r.static_class[0]) + ")", "", "method_table_error", pr.out.str());
                        else if (pr.out.etype != r.ids[k][0])
                            stop = fail(c, "method-table-error-carries-wrong-id", "final", "", "type=" + hex(r.ids[k][0]), pr.out.str());
                    }
                }
            }
        }
        run.count(std::string("world.") + w->name());
        if (stop)
            return 1;
    }
    return run.violations.empty() ? 0 : 1;
}

} // namespace vf

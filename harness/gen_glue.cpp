// generator.hpp defines non-inline functions: it can be included in exactly one
// translation unit of a program.  All uses of the generator go through here.
#include "policies.hpp"
#include "world.hpp"
#include "world_list.hpp"

#include <yorel/yomm2/generator.hpp>

namespace vf {

template<class P>
std::string glue_write_static_offsets() {
    std::ostringstream os;
    yorel::yomm2::generator gen;
    gen.write_static_offsets<P>(os);
    return os.str();
}

#define VF_INST(P) template std::string glue_write_static_offsets<P>();
VF_WORLD_LIST(VF_INST)
#undef VF_INST

std::string glue_encode(const generic_compiler& c, const std::string& policy) {
    std::ostringstream os;
    yorel::yomm2::generator::encode_dispatch_data(c, policy, os);
    return os.str();
}

std::string glue_forward_declarations(const std::vector<std::string>& inputs) {
    yorel::yomm2::generator gen;
    for (auto& s : inputs)
        gen.add_forward_declaration(std::string_view(s));
    std::ostringstream os;
    gen.write_forward_declarations(os);
    return os.str();
}

} // namespace vf

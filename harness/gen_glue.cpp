// generator.hpp defines non-inline functions: it can be included in exactly one
// translation unit of a program.  All uses of the generator go through here.
#include "policies.hpp"
#include "world.hpp"
#include "world_list.hpp"

#include <yorel/yomm2/generator.hpp>

namespace vf {

template<class P>
std::string glue_write_static_offsets() {
    std::ostringstream os;
    yorel::yomm2::generator gen;
    gen.write_static_offsets<P>(os);
    return os.str();
}

#define VF_INST(P) template std::string glue_write_static_offsets<P>();
VF_WORLD_LIST(VF_INST)
#undef VF_INST

// the two generator outputs written one after the other to the SAME stream (one generated
// header with the tables and the offsets): returns what write_static_offsets wrote
template<class P>
std::string glue_write_static_offsets_after_encode(const generic_compiler& c, const std::string& policy) {
    std::ostringstream os;
    yorel::yomm2::generator::encode_dispatch_data(c, policy, os);
    auto mark = os.str().size();
    yorel::yomm2::generator gen;
    gen.write_static_offsets<P>(os);
    return os.str().substr(mark);
}

#define VF_INST(P) template std::string glue_write_static_offsets_after_encode<P>(const generic_compiler&, const std::string&);
VF_WORLD_LIST(VF_INST)
#undef VF_INST

std::string glue_encode(const generic_compiler& c, const std::string& policy) {
    std::ostringstream os;
    if (policy.empty())
        yorel::yomm2::generator::encode_dispatch_data(c, os); // the overload for the default policy
    else
        yorel::yomm2::generator::encode_dispatch_data(c, policy, os);
    return os.str();
}

// forward declarations for every method of a policy: through the library's
// add_forward_declarations<Policy>() or, for comparison, name by name
template<class P>
std::string glue_fwd_policy(bool via_wrapper) {
    yorel::yomm2::generator gen;
    if (via_wrapper) {
        gen.add_forward_declarations<P>();
    } else {
        for (auto& m : P::methods)
            gen.add_forward_declaration(
                std::string_view(boost::core::demangle(reinterpret_cast<const std::type_info*>(m.method_type)->name())));
    }
    std::ostringstream os;
    gen.write_forward_declarations(os);
    return os.str();
}
#define VF_INST2(P) template std::string glue_fwd_policy<P>(bool);
VF_WORLD_LIST(VF_INST2)
#undef VF_INST2

} // namespace vf

namespace fwdzoo {
namespace a {
struct X {};
namespace b {
struct Y {};
template<class T>
struct Tpl {};
} // namespace b
} // namespace a
struct Z {};
namespace ab {
struct X {};
}
} // namespace fwdzoo

namespace vf {

// the three ways of naming one type must produce the same declarations
template<class T>
static void one_type(std::vector<std::string>& out) {
    std::string r[3];
    for (int k = 0; k < 3; ++k) {
        yorel::yomm2::generator gen;
        if (k == 0)
            gen.add_forward_declaration<T>();
        else if (k == 1)
            gen.add_forward_declaration(typeid(T));
        else
            gen.add_forward_declaration(std::string_view(boost::core::demangle(typeid(T).name())));
        std::ostringstream os;
        gen.write_forward_declarations(os);
        r[k] = os.str();
    }
    out.push_back(boost::core::demangle(typeid(T).name()));
    out.push_back(r[0]);
    out.push_back(r[1]);
    out.push_back(r[2]);
}

std::vector<std::string> glue_fwd_wrapper_routes() {
    std::vector<std::string> out;
    one_type<fwdzoo::a::X>(out);
    one_type<fwdzoo::a::b::Y*>(out);
    one_type<const fwdzoo::Z&>(out);
    one_type<fwdzoo::a::b::Tpl<fwdzoo::ab::X>>(out);
    one_type<void (*)(fwdzoo::a::X&, const fwdzoo::ab::X*, int)>(out);
    one_type<std::shared_ptr<fwdzoo::a::b::Y>>(out);
    one_type<std::pair<fwdzoo::Z*, const fwdzoo::a::X*>>(out);
    return out;
}

std::string glue_forward_declarations(const std::vector<std::string>& inputs) {
    yorel::yomm2::generator gen;
    for (auto& s : inputs)
        gen.add_forward_declaration(std::string_view(s));
    std::ostringstream os;
    gen.write_forward_declarations(os);
    return os.str();
}

} // namespace vf

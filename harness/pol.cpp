// One policy world per translation unit: compile with -DVF_POLICY=P_xxx
#include "world_impl.hpp"

#define VF_CAT2(a, b) a##b
#define VF_CAT(a, b) VF_CAT2(a, b)
#define VF_STR2(a) #a
#define VF_STR(a) VF_STR2(a)

namespace vf {

IWorld* VF_CAT(make_world_, VF_POLICY)() {
    using P = VF_POLICY;
    Caps caps;
    caps.map = !std::is_base_of_v<yp::vptr_vector<P>, P>;
    caps.projection = std::is_base_of_v<proj_rtti, P>;
    caps.throws = std::is_base_of_v<yp::throw_error, P>;
    caps.small_ids = std::is_base_of_v<yp::vptr_vector<P>, P> && !P::has_facet<yp::type_hash>;
    static World<P> w(VF_STR(VF_POLICY), caps);
    return &w;
}

} // namespace vf

// C09: a call through a virtual_ptr runs what the same call with a plain
// reference runs, however the pointer was created; get / * / -> give back the
// object; validity across updates (indirect: kept pointers stay valid; direct:
// pointers re-created after the update are valid).
#include "monitors.hpp"

namespace vf {

static const char* rname(int r) {
    static const char* n[] = {"plain", "final", "conv-copy", "conv-move", "copy", "move", "from-derived-object", "held-across-update"};
    return n[r];
}

// all tuples of methods that have a virtual_ptr parameter, each construction
// route applied to every virtual_ptr position where it is legal
static bool route_calls(CaseCtx& c, const std::vector<int>& routes, const char* phase) {
    for (size_t m = 0; m < c.r.methods.size(); ++m) {
        auto& me = c.r.methods[m];
        if (!me.attached)
            continue;
        const char* sig = g_shapes[me.shape].sig;
        bool has_vp = false;
        for (int i = 0; sig[i]; ++i)
            has_vp |= sig[i] == 'Q' || sig[i] == 'K' || sig[i] == 'H' || sig[i] == 'J';
        if (!has_vp)
            continue;
        int uid = me.shape * NINST + me.inst;
        std::vector<std::vector<int>> tuples;
        enum_tuples(c.rng, c.r, c.o, me, 200, tuples);
        for (auto& t : tuples) {
            Sel exp = c.o.select(me, t);
            for (int route : routes) {
                CallSpec cs{};
                int vi = 0;
                for (int i = 0; sig[i]; ++i) {
                    char k = sig[i];
                    if (!(k >= 'A' && k <= 'Z'))
                        continue;
                    cs.tuple[vi] = t[vi];
                    cs.alias[vi] = route == RT_HELD ? 0 : (int)c.rng.below(c.r.ids[t[vi]].size());
                    bool vp = k == 'Q' || k == 'K' || k == 'H' || k == 'J';
                    int rt = vp ? route : (c.rng.chance(1, 3) ? RT_FROM_D : RT_PLAIN);
                    if (rt == RT_FINAL && (t[vi] != c.r.static_class[0] || cs.alias[vi] != 0))
                        rt = RT_PLAIN;
                    if (rt == RT_FROM_D && (k == 'H' || k == 'J'))
                        rt = RT_PLAIN;
                    cs.route[vi] = rt;
                    ++vi;
                }
                cs.nvseed = c.rng.next();
                set_stage("call");
                Outcome out = c.w.call(c.r, (int)m, cs);
                set_stage("monitor");
                c.run.evaluations++;
                c.run.events += (long)out.events.size();
                c.run.count(std::string("route.") + rname(route));
                std::string got = outcome_class(c.r, (int)m, out);
                bool ok;
                if (exp.kind == Sel::DEF) {
                    ok = out.kind == Outcome::RAN && out.events.size() == 1 && out.events[0].muid == uid && out.events[0].def == exp.def;
                    if (ok) {
                        int np = g_shapes[me.shape].nparams;
                        for (int i = 0; i < np; ++i)
                            ok = ok && out.events[0].obs[i] == out.expect_obs[i];
                        if (!ok)
                            got += " but an argument is not the caller's object";
                    }
                } else {
                    ok = out.kind == Outcome::RES_ERR && out.status == (exp.kind == Sel::NODEF ? 1 : 2) && out.events.empty();
                }
                if (!ok) {
                    if (c.run.violation(std::string("C09:") + phase + ":differs-from-plain-reference:" + rname(route),
                                        witness_json(c, std::string("call through virtual_ptr, ") + phase, call_json(c.r, (int)m, cs), exp.str() + " (what the call with plain references runs)", out.kind == Outcome::RAN || out.kind == Outcome::RES_ERR ? got : out.str())))
                        return true;
                    return false; // one witness per registry is enough
                }
            }
        }
    }
    return false;
}

static bool probes(CaseCtx& c) {
    for (int k = 0; k < c.r.n; ++k) {
        if (c.r.abstract_[k])
            continue;
        for (int shared = 0; shared < 2; ++shared)
            for (int route = 0; route < RT_HELD; ++route) {
                if (route == RT_FINAL && k != c.r.static_class[0])
                    continue;
                if (route == RT_FROM_D && shared)
                    continue;
                int alias = route == RT_FINAL ? 0 : (int)c.rng.below(c.r.ids[k].size());
                set_stage("virtual_ptr-construction");
                VptrProbe pr = c.w.probe_vptr(c.r, k, alias, route, shared != 0);
                set_stage("monitor");
                c.run.evaluations++;
                bool useD = route == RT_FROM_D || route == RT_CONV_COPY || route == RT_CONV_MOVE;
                const void* obj = c.w.object(k, alias, useD);
                std::string what = std::string(shared ? "virtual_shared_ptr" : "virtual_ptr") + " to an object of class " + std::to_string(k) + " built by route " + rname(route);
                auto fail = [&](const char* key, const std::string& e, const std::string& o) {
                    return c.run.violation(std::string("C09:") + key + ":" + (shared ? "shared:" : "plain:") + rname(route), witness_json(c, what, "", e, o));
                };
                if (pr.out.kind != Outcome::RAN)
                    return fail("construction-error", "constructed", pr.out.str());
                if (pr.get != obj)
                    return fail("get-not-the-object", "get() == address of the object", "another address");
                if (pr.deref != obj)
                    return fail("deref-not-the-object", "&*p == address of the object", "another address");
                if (pr.arrow != obj)
                    return fail("arrow-not-the-object", "operator->() == address of the object", "another address");
                if (pr.vptr != *c.w.static_vptr_slot(k))
                    return fail("vptr-not-the-pointees", "the v-table of the pointee's dynamic class", pr.vptr ? "another v-table" : "null");
            }
    }
    return false;
}

int prop_vptr(Run& run) {
    bool thorough = run.tier == "thorough";
    GenProfile prof;
    prof.min_classes = 2;
    prof.max_classes = thorough ? 24 : 12;
    prof.max_methods = 5;
    prof.max_defs = 5;
    // shapes that have a virtual_ptr parameter
    prof.shape_mask = 0;
    for (int s = 0; s < g_nshapes; ++s)
        for (const char* p = g_shapes[s].sig; *p; ++p)
            if (*p == 'Q' || *p == 'K' || *p == 'H' || *p == 'J')
                prof.shape_mask |= 1u << s;
    auto ws = suitable_worlds(run, false, true);
    if (ws.empty())
        return 2;
    std::vector<int> all_routes = {RT_PLAIN, RT_FINAL, RT_CONV_COPY, RT_CONV_MOVE, RT_COPY, RT_MOVE, RT_FROM_D};
    for (long cs = 0; cs < run.cases; ++cs) {
        if (run.only_case >= 0 && cs != run.only_case)
            continue;
        run.cur_case = cs;
        Rng rng(run.seed, (uint64_t)cs);
        IWorld* w = ws[(size_t)((cs + run.seed) % ws.size())];
        Registry r2;
        gen_graph(rng, prof, r2);
        Oracle o(r2);
        gen_methods(rng, prof, r2, o);
        assign_ids(rng, r2, pick_flavour(rng, w->caps()), w->caps().projection ? MAXALIAS : 1);
        gen_presentation(rng, r2, o, (int)rng.below(NPRES));
        r2.static_class[0] = (int)rng.below(r2.n);
        r2.static_class[1] = (int)rng.below(r2.n);
        // phase 1 registry: some classes (closed under derivation), methods and definitions
        // are not registered yet - as before a shared library is loaded
        Registry r1 = r2;
        std::vector<char> late(r2.n, 0);
        for (int k = 0; k < r2.n; ++k)
            if (rng.chance(1, 4) && k != r2.static_class[0] && k != r2.static_class[1])
                for (int d = 0; d < r2.n; ++d)
                    if (o.derives(d, k) && d != r2.static_class[0] && d != r2.static_class[1])
                        late[d] = 1;
        // a late class may not have a registered class deriving from it
        for (int k = 0; k < r2.n; ++k)
            if (late[k])
                for (int d = 0; d < r2.n; ++d)
                    if (o.derives(d, k) && !late[d])
                        late[k] = 0;
        for (int it = 0; it < r2.n; ++it)
            for (int k = 0; k < r2.n; ++k)
                if (late[k])
                    for (int d = 0; d < r2.n; ++d)
                        if (o.derives(d, k) && !late[d])
                            late[k] = 0;
        for (int k = 0; k < r2.n; ++k)
            if (late[k])
                r1.abstract_[k] = 1; // no object of an unregistered class is ever passed
        auto mentions_late = [&](const std::vector<int>& v) {
            for (int x : v)
                if (late[x])
                    return true;
            return false;
        };
        for (size_t m = 0; m < r1.methods.size(); ++m) {
            if (mentions_late(r1.methods[m].vp) || (m > 0 && rng.chance(1, 2)))
                r1.methods[m].attached = false;
            for (size_t d = 0; d < r1.methods[m].defs.size(); ++d)
                if (mentions_late(r1.methods[m].defs[d].vp) || rng.chance(1, 3))
                    r1.methods[m].def_live[d] = false;
        }
        set_current_case(run, w->name(), dump_registry(r1));
        if (rng.chance(3, 4))
            w->hard_reset();
        else
            w->soft_reset();
        w->bind(r2);
        w->make_objects(r2);
        for (size_t k = 0; k < r2.records.size(); ++k)
            if (!late[r2.records[k].cls])
                w->add_record(r2, (int)k);
        for (int m : r2.method_order)
            if (r1.methods[m].attached) {
                w->attach_method(r2, m);
                for (int d : r2.methods[m].def_order)
                    if (r1.methods[m].def_live[d])
                        w->add_def(r2, m, d);
            }
        CaseCtx c1{run, *w, r1, o, rng, "before the later update"};
        UpdateResult u;
        if (!do_update(c1, u, "C09"))
            continue;
        bool stop = probes(c1) || route_calls(c1, all_routes, "first-update");
        if (!stop && !run.violations.empty() && run.violations.back().witness.find("-c" + std::to_string(cs) + "-") != std::string::npos) {
            // a violation was recorded for this registry: skip the history part
        } else if (!stop) {
            Outcome ho = w->hold_vptrs(r1);
            if (ho.kind != Outcome::RAN) {
                stop = run.violation("C09:construction-error:hold", witness_json(c1, "creating one virtual_ptr per class", "", "constructed", ho.str()));
            } else {
                // later update: register the rest (new classes change the hash, new methods the
                // slots; dispatch_data and the v-table pointer vector are reallocated)
                for (size_t k = 0; k < r2.records.size(); ++k)
                    if (late[r2.records[k].cls])
                        w->add_record(r2, (int)k);
                for (int m : r2.method_order) {
                    if (!r1.methods[m].attached)
                        w->attach_method(r2, m);
                    for (int d : r2.methods[m].def_order)
                        if (!r1.methods[m].attached || !r1.methods[m].def_live[d])
                            w->add_def(r2, m, d);
                }
                for (int k = 0; k < r2.n; ++k)
                    if (late[k])
                        run.count("late-classes");
                set_current_case(run, w->name(), dump_registry(r2));
                CaseCtx c2{run, *w, r2, o, rng, "after a later update that registered more methods and definitions"};
                UpdateResult u2;
                if (do_update(c2, u2, "C09")) {
                    if (w->caps().indirect) {
                        // pointers created before the update remain valid
                        // (only classes that had a pointer before the update are passed)
                        Registry r2h = r2;
                        r2h.abstract_ = r1.abstract_;
                        CaseCtx c2h{run, *w, r2h, o, rng, c2.label};
                        stop = route_calls(c2h, {RT_HELD}, "indirect-kept-across-update");
                        run.count("histories.indirect-kept");
                    } else {
                        // valid until the next update: re-create, then use
                        Outcome h2 = w->hold_vptrs(r2);
                        if (h2.kind == Outcome::RAN)
                            stop = route_calls(c2, {RT_HELD, RT_PLAIN, RT_COPY}, "direct-recreated-after-update");
                        run.count("histories.direct-recreated");
                    }
                    if (!stop)
                        stop = probes(c2);
                }
            }
        }
        run.count(std::string("world.") + w->name());
        if (!r2.methods.empty()) {
            run.distinct.insert(registry_hash(r2) ^ std::hash<std::string>()(w->name()));
            if (run.samples.size() < 2)
                run.sample("{\"world\":" + jstr(w->name()) + ",\"registry\":" + dump_registry(r2) + "}");
        }
        if (stop)
            return 1;
    }
    return run.violations.empty() ? 0 : 1;
}

} // namespace vf

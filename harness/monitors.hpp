// Reusable monitors over one materialised registry in one world.
#ifndef VF_MONITORS_HPP
#define VF_MONITORS_HPP

#include "run.hpp"

namespace vf {

enum MonitorFlags : unsigned {
    MON_SELECT = 1,   // C01: the definition that runs / resolve()
    MON_ERRORS = 2,   // C02: error reports
    MON_NEXT = 4,     // C03
    MON_WALK = 8,     // C04: shadow walk + slot uniqueness
    MON_REPORT = 16,  // C17
    MON_ABORTS = 32,  // C02: forked handler-returns cases
};

struct CaseCtx {
    Run& run;
    IWorld& w;
    const Registry& r;
    const Oracle& o;
    Rng& rng;
    std::string label; // extra text for witness
};

std::string witness_json(const CaseCtx& c, const std::string& what, const std::string& call, const std::string& expected,
                         const std::string& observed);
std::string call_json(const Registry& r, int m, const CallSpec& cs);

// choose a legal random route for virtual position vi of method m
void choose_routes(Rng& rng, const Registry& r, const Meth& m, CallSpec& cs, bool all_routes);

// update and classify; returns false when the case cannot continue
// (violation recorded or inconclusive counted)
bool do_update(CaseCtx& c, UpdateResult& u, const char* prop);

// the dispatch monitors; returns true when the run should stop
bool monitor_calls(CaseCtx& c, const UpdateResult& u, unsigned flags, int max_tuples);
bool monitor_next(CaseCtx& c, const char* prop);
bool monitor_walk(CaseCtx& c, const UpdateResult& u, const char* prop);
bool monitor_report(CaseCtx& c, const UpdateResult& u);
bool monitor_aborts(CaseCtx& c, int max_cases);

// expected outcome of one call as a comparable string ("def 3", "no_definition", "ambiguous")
std::string outcome_class(const Registry& r, int m, const Outcome& out);

// is this registry "non trivial" for a property (used for distinct_nontrivial)
bool has_mi(const Registry& r);
int count_incomparable(const Registry& r, const Oracle& o);

// the complete observable dispatch behaviour of the registry as materialised in
// c.w: one row per (method, tuple) and one per definition's next.  Tuples and
// routes are derived from `seed` only, so that two materialisations of the same
// abstract registry produce comparable tables.
struct Behaviour {
    std::vector<std::string> rows;
    long calls = 0;
};
void behaviour(CaseCtx& c, uint64_t seed, int max_tuples, int alias_round, bool with_next, Behaviour& out);
// the same table computed from the oracle alone
void oracle_behaviour(const Registry& r, const Oracle& o, uint64_t seed, int max_tuples, bool with_next, Behaviour& out);
// first differing row, or -1
long first_difference(const Behaviour& a, const Behaviour& b);

std::vector<IWorld*> suitable_worlds(const Run& run, bool want_deferred, bool want_projection);
int pick_flavour(Rng& rng, const Caps& caps, bool need_typeid = false);

} // namespace vf

#endif

// C14: registering / unregistering / updating / configuring one policy never
// changes calls, virtual_ptrs, tables, hash parameters or the error handler of
// another policy, even when the same class ids are registered in both.
#include "monitors.hpp"

namespace vf {

namespace {

struct Side {
    IWorld* w = nullptr;
    Registry r;
    std::unique_ptr<Oracle> o;
    bool usable = false; // updated, hash not disturbed since
    bool held = false;
    HandlerMode mode = H_THROW;
    uint64_t bseed = 0;
};

struct Snap {
    std::string digest;
    Behaviour table;
    Behaviour held;
};

// calls through virtual_ptrs created before the operation on the other policy
void held_table(CaseCtx& c, uint64_t seed, Behaviour& out) {
    for (size_t m = 0; m < c.r.methods.size(); ++m) {
        auto& me = c.r.methods[m];
        if (!me.attached)
            continue;
        const char* sig = g_shapes[me.shape].sig;
        bool has_vp = false;
        for (int i = 0; sig[i]; ++i)
            has_vp |= sig[i] == 'Q' || sig[i] == 'K' || sig[i] == 'H' || sig[i] == 'J';
        if (!has_vp)
            continue;
        Rng trng(seed, 1000 + m);
        std::vector<std::vector<int>> tuples;
        enum_tuples(trng, c.r, c.o, me, 40, tuples);
        for (auto& t : tuples) {
            CallSpec cs{};
            int vi = 0;
            for (int i = 0; sig[i]; ++i) {
                char k = sig[i];
                if (!(k >= 'A' && k <= 'Z'))
                    continue;
                cs.tuple[vi] = t[vi];
                cs.alias[vi] = 0;
                cs.route[vi] = (k == 'Q' || k == 'K' || k == 'H' || k == 'J') ? RT_HELD : RT_PLAIN;
                ++vi;
            }
            cs.nvseed = trng.next();
            Outcome o = c.w.call(c.r, (int)m, cs);
            c.run.evaluations++;
            std::string row = "held m" + std::to_string(m) + " [";
            for (int x : t)
                row += std::to_string(x) + ",";
            row += "] -> " + outcome_class(c.r, (int)m, o);
            if (o.kind == Outcome::RAN && o.events.size() == 1)
                for (int i = 0; i < g_shapes[me.shape].nparams; ++i)
                    if (o.events[0].obs[i] != o.expect_obs[i])
                        row += " ARG-MISMATCH";
            out.rows.push_back(row);
        }
    }
}

} // namespace

int prop_isolation(Run& run) {
    bool thorough = run.tier == "thorough";
    GenProfile prof;
    prof.min_classes = 3;
    prof.max_classes = thorough ? 16 : 10;
    prof.max_methods = 4;
    prof.max_defs = 5;
    const char* names[] = {"P_dbg", "P_b", "P_c", "P_rel", "P_map", "P_ind", "P_m1", "P_m2"};
    for (long cs = 0; cs < run.cases; ++cs) {
        if (run.only_case >= 0 && cs != run.only_case)
            continue;
        run.cur_case = cs;
        Rng rng(run.seed, (uint64_t)cs);
        // two or three policies, chosen among six, sharing one table of class ids
        std::vector<Side> sides;
        std::vector<int> pick = {0, 1, 2, 3, 4, 5, 6, 7};
        rng.shuffle(pick);
        if (rng.chance(1, 3)) { // a policy and the one obtained from it by rebind
            pick = {6, 7, (int)rng.below(6)};
            if (rng.chance(1, 2))
                std::swap(pick[0], pick[1]);
        } else if (rng.chance(1, 3)) { // the two policies rebound last from one replaced / removed base
            pick = {1, 2, (int)(rng.chance(1, 2) ? 0 : 3 + rng.below(5))};
            if (rng.chance(1, 2))
                std::swap(pick[0], pick[1]);
        }
        int nsides = rng.range(2, 3);
        for (int i = 0; i < nsides; ++i) {
            Side s;
            s.w = find_world(names[pick[i]]);
            if (!s.w || !run.want_policy(names[pick[i]]))
                continue;
            sides.push_back(std::move(s));
        }
        if (sides.size() < 2)
            continue;
        Registry idtab;
        idtab.n = MAXC;
        idtab.bases.assign(MAXC, {});
        assign_ids(rng, idtab, rng.chance(1, 2) ? 1 : 4, 1);
        auto fresh_registry = [&](Side& s) {
            Registry r;
            gen_graph(rng, prof, r);
            s.o.reset(new Oracle(r));
            gen_methods(rng, prof, r, *s.o);
            r.ids.assign(r.n, {});
            for (int k = 0; k < r.n; ++k)
                r.ids[k] = {idtab.ids[k][0]};
            r.idflavour = idtab.idflavour;
            gen_presentation(rng, r, *s.o, (int)rng.below(NPRES));
            r.static_class[0] = 0;
            r.static_class[1] = 1;
            s.r = r;
            s.bseed = rng.next();
        };
        std::vector<std::string> log;
        auto log_json = [&]() {
            std::string s = "[";
            for (size_t i = 0; i < log.size(); ++i)
                s += (i ? "," : "") + jstr(log[i]);
            return s + "]";
        };
        auto snapshot = [&](Side& s, Snap& sn) {
            sn.digest = s.w->state_digest();
            sn.table.rows.clear();
            sn.held.rows.clear();
            if (s.usable) {
                // (calls are made with the throwing handler; the side's own configuration,
                // already captured in the digest, is restored afterwards)
                s.w->set_handler(H_THROW);
                CaseCtx c{run, *s.w, s.r, *s.o, rng, ""};
                behaviour(c, s.bseed, 60, 0, true, sn.table);
                if (s.held)
                    held_table(c, s.bseed, sn.held);
                s.w->set_handler(s.mode);
            }
        };
        for (auto& s : sides) {
            s.w->hard_reset();
            s.w->set_handler(H_THROW);
        }
        bool stop = false, abandoned = false;
        int nops = rng.range(8, thorough ? 40 : 20);
        int judged = 0;
        for (int op = 0; op < nops && !stop && !abandoned; ++op) {
            size_t xi = rng.below(sides.size());
            Side& x = sides[xi];
            std::vector<Snap> before(sides.size());
            for (size_t i = 0; i < sides.size(); ++i)
                if (i != xi)
                    snapshot(sides[i], before[i]);
            int kind = !x.usable ? 0 : (int)rng.below(8);
            std::string what;
            switch (kind) {
            case 0:
            case 1: { // register a new program in x and update
                fresh_registry(x);
                set_current_case(run, x.w->name(), "{\"log\":" + log_json() + ",\"registry\":" + dump_registry(x.r) + "}");
                x.w->materialize(x.r);
                CaseCtx c{run, *x.w, x.r, *x.o, rng, ""};
                UpdateResult u;
                what = "register+update";
                if (!do_update(c, u, "C14")) {
                    abandoned = true;
                    break;
                }
                x.usable = true;
                x.held = x.w->hold_vptrs(x.r).kind == Outcome::RAN;
                break;
            }
            case 2: { // update again
                CaseCtx c{run, *x.w, x.r, *x.o, rng, ""};
                UpdateResult u;
                what = "update";
                if (!do_update(c, u, "C14")) {
                    abandoned = true;
                    break;
                }
                x.held = x.w->hold_vptrs(x.r).kind == Outcome::RAN;
                break;
            }
            case 3: { // unregister a definition (or everything) and update
                what = "unregister+update";
                bool did = false;
                for (size_t m = 0; m < x.r.methods.size() && !did; ++m)
                    for (size_t d = 0; d < x.r.methods[m].defs.size() && !did; ++d)
                        if (x.r.methods[m].def_live[d] && rng.chance(1, 2)) {
                            x.w->remove_def(x.r, (int)m, (int)d);
                            x.r.methods[m].def_live[d] = false;
                            did = true;
                        }
                CaseCtx c{run, *x.w, x.r, *x.o, rng, ""};
                UpdateResult u;
                if (!do_update(c, u, "C14")) {
                    abandoned = true;
                    break;
                }
                x.held = x.w->hold_vptrs(x.r).kind == Outcome::RAN;
                break;
            }
            case 4: { // change x's error handling
                what = "set-handler";
                x.mode = x.mode == H_THROW ? (rng.chance(1, 2) ? H_CALL_ERROR : H_DEFAULT) : H_THROW;
                x.w->set_handler(x.mode);
                break;
            }
            case 5: { // exhaust x's hash search
                what = "hash-exhaustion";
                if (!x.w->caps().hash || !x.w->set_hash_budget(1)) {
                    what = "noop";
                    break;
                }
                std::vector<std::vector<type_id>> classes;
                for (int i = 0; i < 50; ++i)
                    classes.push_back({rng.next() | 1});
                x.w->set_handler(H_THROW);
                x.mode = H_THROW;
                x.w->hash_init(classes);
                x.w->set_hash_budget(100000);
                x.usable = false; // x must update before it is called again
                break;
            }
            case 6: { // everything of x goes away (as unloading all its code), then update
                what = "unregister-all+update";
                x.w->soft_reset();
                CaseCtx c{run, *x.w, x.r, *x.o, rng, ""};
                UpdateResult u;
                do_update(c, u, "C14");
                x.usable = false;
                break;
            }
            default: { // calls in x (errors included, handlers run)
                what = "calls";
                x.w->set_handler(H_THROW);
                x.mode = H_THROW;
                CaseCtx c{run, *x.w, x.r, *x.o, rng, ""};
                Behaviour b;
                behaviour(c, rng.next(), 40, 0, false, b);
                break;
            }
            }
            log.push_back(std::string(x.w->name()) + ": " + what);
            if (abandoned)
                break;
            for (size_t i = 0; i < sides.size() && !stop; ++i) {
                if (i == xi)
                    continue;
                Snap after;
                snapshot(sides[i], after);
                ++judged;
                run.count("operation." + what);
                CaseCtx c{run, *sides[i].w, sides[i].r, sides[i].o ? *sides[i].o : *x.o, rng, "operations " + log_json()};
                std::string pair = what + ":" + x.w->name() + "->" + sides[i].w->name();
                if (after.digest != before[i].digest) {
                    // which field
                    std::string field = "state";
                    auto fa = after.digest, fb = before[i].digest;
                    size_t p = 0;
                    while (p < fa.size() && p < fb.size() && fa[p] == fb[p])
                        ++p;
                    size_t st = fa.rfind(';', p);
                    st = st == std::string::npos ? 0 : st + 1;
                    field = fa.substr(st, fa.find_first_of("=:", st) - st);
                    stop = run.violation("C14:state-of-other-policy-changed:" + field + ":" + what,
                                         witness_json(c, "observable state of " + std::string(sides[i].w->name()) + " after '" + what + "' on " + x.w->name(), "", before[i].digest.substr(0, 700), after.digest.substr(0, 700)));
                    break;
                }
                long d = first_difference(before[i].table, after.table);
                if (d >= 0) {
                    stop = run.violation("C14:calls-of-other-policy-changed:" + what,
                                         witness_json(c, "behaviour of " + std::string(sides[i].w->name()) + " after '" + what + "' on " + x.w->name(), "", d < (long)before[i].table.rows.size() ? before[i].table.rows[d] : "(missing)", d < (long)after.table.rows.size() ? after.table.rows[d] : "(missing)"));
                    break;
                }
                long dh = first_difference(before[i].held, after.held);
                if (dh >= 0) {
                    stop = run.violation("C14:virtual_ptr-of-other-policy-invalidated:" + what,
                                         witness_json(c, "calls through virtual_ptrs of " + std::string(sides[i].w->name()) + " created before '" + what + "' on " + x.w->name(), "", dh < (long)before[i].held.rows.size() ? before[i].held.rows[dh] : "(missing)", dh < (long)after.held.rows.size() ? after.held.rows[dh] : "(missing)"));
                    break;
                }
                // and the table still equals the oracle's
                if (sides[i].usable) {
                    Behaviour expected;
                    oracle_behaviour(sides[i].r, *sides[i].o, sides[i].bseed, 60, true, expected);
                    long de = first_difference(expected, after.table);
                    if (de >= 0) {
                        stop = run.violation("C14:other-policy-wrong:" + what, witness_json(c, "behaviour of " + std::string(sides[i].w->name()), "", de < (long)expected.rows.size() ? expected.rows[de] : "(missing)", de < (long)after.table.rows.size() ? after.table.rows[de] : "(missing)"));
                        break;
                    }
                }
            }
        }
        for (auto& s : sides)
            s.w->set_handler(H_THROW);
        if (judged >= 4) {
            uint64_t hh = 1469598103934665603ull;
            for (auto& s : log)
                hh = hh * 1099511628211ull ^ std::hash<std::string>()(s);
            for (auto& s : sides)
                hh ^= registry_hash(s.r);
            run.distinct.insert(hh);
            if (run.samples.size() < 2)
                run.sample("{\"operations\":" + log_json() + "}");
        }
        if (stop)
            return 1;
    }
    return run.violations.empty() ? 0 : 1;
}

} // namespace vf

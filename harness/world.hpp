// Policy-independent interface to one yomm2 policy "world": the real catalogs,
// real method<> objects, real update and real call path of that policy.
#ifndef VF_WORLD_HPP
#define VF_WORLD_HPP

#include "common.hpp"

namespace vf {

using yorel::yomm2::detail::generic_compiler;

struct Caps {
    bool hash = false;      // type_hash facet
    bool checked = false;   // runtime_checks facet
    bool indirect = false;  // indirect_vptr facet
    bool map = false;       // vptr_map
    bool deferred = false;  // deferred_static_rtti
    bool projection = false;
    bool vectored = false;  // Policy::error is an assignable std::function
    bool call_error = false; // deprecated call_error hook present
    bool throws = false;    // throw_error facet
    bool small_ids = false; // ids must be small integers (vector without hash)
};

// what a call / update / virtual_ptr construction ended with
struct Outcome {
    enum Kind {
        RAN,           // returned normally
        RES_ERR,       // resolution_error
        UNKNOWN_CLASS, // unknown_class_error
        TABLE_ERR,     // method_table_error
        HASH_ERR,      // hash_search_error
        SLOT_ERR,
        STRIDE_ERR,
        OTHER_ERR
    } kind = RAN;
    bool via_call_error = false; // delivered through the deprecated hook
    int ret = 0;
    int status = 0;
    size_t arity = 0;
    type_id types[16] = {};
    type_id etype = 0; // unknown_class / method_table error type
    size_t attempts = 0, buckets = 0;
    std::vector<Event> events;
    uint64_t expect_obs[MAXPARAM] = {}; // what the caller passed
    const void* got_addr[MAXPARAM] = {};
    std::string str() const;
};

enum HandlerMode {
    H_THROW,      // vectored handler records + throws (or throw_error facet)
    H_CALL_ERROR, // default vectored handler, deprecated call_error hook throws
    H_RETURN,     // handler records into shared page and returns (abort expected)
    H_DEFAULT     // library default handlers untouched
};

// argument routes
enum Route {
    RT_PLAIN = 0,    // reference / pointer / shared_ptr as is; virtual_ptr from Node&
    RT_FINAL,        // virtual_ptr::final (only when class == static class)
    RT_CONV_COPY,    // virtual_ptr<NodeD> -> virtual_ptr<Node> converting copy
    RT_CONV_MOVE,    // ... converting move
    RT_COPY,         // copy of a virtual_ptr
    RT_MOVE,         // move of a virtual_ptr
    RT_FROM_D,       // object of C++ type NodeD passed as Node& (lookup branch, adjusted address)
    RT_HELD,         // a virtual_ptr created earlier (hold_vptrs) and kept across updates
    RT_COUNT
};

struct CallSpec {
    int tuple[MAXAR];  // class per virtual position
    int alias[MAXAR];  // which id of the class the object carries
    int route[MAXAR];
    uint64_t nvseed;
};

struct UpdateResult {
    bool ok = false;
    Outcome err; // when !ok
    std::shared_ptr<generic_compiler> compiler;
    yorel::yomm2::detail::update_report report;
};

// the emitted dispatch data, parsed from the generator's text (C13)
struct EncodedData {
    size_t headroom = 0, nslots = 0, nvtbls = 0, ndecoded = 0, ndtbls = 0; // declared array sizes
    std::vector<uint16_t> slots, vtbls;
    std::vector<std::uintptr_t> dtbls;
};

struct MethodView {
    int shape, inst;
    yorel::yomm2::detail::method_info* info;
    std::size_t* slots_strides;
    void* body[MAXDEF_BIG];
};

struct VptrProbe { // result of constructing a virtual_ptr and reading it back
    Outcome out;
    const void* get = nullptr;
    const void* deref = nullptr;
    const void* arrow = nullptr;
    const std::uintptr_t* vptr = nullptr;
    long use_count = 0;
};

struct IWorld {
    virtual ~IWorld() {
    }
    virtual const char* name() const = 0;
    virtual Caps caps() const = 0;

    // catalogs
    virtual void hard_reset() = 0; // as a fresh process: catalogs + installed state
    virtual void soft_reset() = 0; // catalogs only
    virtual void materialize(const Registry& r) = 0;
    virtual void bind(const Registry& r) = 0; // static ids / slots only (histories)
    virtual UpdateResult update() = 0;
    virtual void set_handler(HandlerMode m) = 0;

    // registration-level operations for histories
    virtual void add_record(const Registry& r, int rec) = 0;
    virtual void remove_record(int rec) = 0;
    virtual void attach_method(const Registry& r, int m) = 0;
    virtual void detach_method(const Registry& r, int m) = 0;
    virtual void add_def(const Registry& r, int m, int d) = 0;
    virtual void remove_def(const Registry& r, int m, int d) = 0;
    virtual void make_objects(const Registry& r) = 0;

    // observation
    virtual MethodView method(const Registry& r, int m) = 0;
    virtual void* next_of(int m, int d) = 0;
    virtual void poison_next(int m, int d) = 0;
    virtual std::uintptr_t* const* static_vptr_slot(int cls) = 0;
    virtual const std::vector<std::uintptr_t>& dispatch_data() = 0;
    virtual const std::uintptr_t* lookup_vptr(type_id id) = 0; // through Policy::dynamic_vptr
    virtual size_t catalog_classes() = 0;
    virtual size_t catalog_methods() = 0;
    // the catalogs as enumerated by the library's own lists (C18)
    virtual std::vector<const void*> catalog_class_records(bool const_iter) = 0;
    virtual std::vector<const void*> catalog_method_records(bool const_iter) = 0;
    virtual std::vector<const void*> catalog_definition_records(const Registry& r, int m, bool const_iter, size_t& size, bool& empty) = 0;
    virtual const void* class_record_address(int rec) = 0;
    virtual const void* definition_record_address(const Registry& r, int m, int d) = 0;
    virtual bool catalogs_empty(bool& classes_empty, bool& methods_empty) = 0;
    virtual void clear_catalog(int which, const Registry& r, int m) = 0; // 0 classes, 1 methods, 2 definitions of m
    virtual std::string state_digest() = 0; // everything observable, for isolation checks

    // calls
    virtual Outcome call(const Registry& r, int m, const CallSpec& cs) = 0;
    virtual void* resolve(const Registry& r, int m, const CallSpec& cs, Outcome& out) = 0;
    virtual VptrProbe probe_vptr(const Registry& r, int cls, int alias, int route, bool shared) = 0;
    virtual Node* object(int cls, int alias, bool derived) = 0;
    // create and keep one virtual_ptr / virtual_shared_ptr per class (route RT_HELD uses them)
    virtual Outcome hold_vptrs(const Registry& r) = 0;

    // hash (C05)
    virtual bool hash_info(type_id& mult, size_t& shift, size_t& length, size_t& vptrs_size, size_t& control_size) = 0;
    virtual Outcome hash_id(type_id id, type_id& index) = 0;
    // drive Policy::hash_initialize directly with synthetic classes (one id list per class)
    virtual Outcome hash_init(const std::vector<std::vector<type_id>>& classes) = 0;
    virtual bool set_hash_budget(size_t attempts) = 0; // guarded hook; false when absent
    virtual Outcome try_lookup(type_id id, const std::uintptr_t*& vptr) = 0;

    // generator (C12 / C13)
    virtual std::string write_static_offsets() = 0;
    virtual std::string write_static_offsets_after_encode(const generic_compiler& c) = 0; // same stream as encode_dispatch_data
    virtual std::string encode(const generic_compiler& c) = 0;
    virtual std::string encode_for_default_policy(const generic_compiler& c) = 0;
    virtual std::string forward_declarations_of_methods(bool via_wrapper) = 0; // C19
    // static offsets (C12): methods of instance 2 of every shape are compiled with a
    // static_offsets specialisation whose arrays the harness fills at run time
    virtual bool has_static_offsets(const Registry& r, int m) = 0;
    virtual void set_static_offsets(const Registry& r, int m, const std::vector<size_t>& slots, const std::vector<size_t>& strides) = 0;
    virtual void sync_static_offsets() = 0; // copy installed slots_strides into them
    // decode (C13): as a process that holds the registrations but never ran update
    virtual void forget_installed_tables(const Registry& r) = 0;
    virtual std::string decode(const EncodedData& d) = 0; // "" or what the decoder did wrong

};

std::vector<IWorld*>& worlds();
IWorld* find_world(const std::string& name);

struct WorldRegistrar {
    explicit WorldRegistrar(IWorld* w) {
        worlds().push_back(w);
    }
};

// exceptions thrown by harness-installed handlers
struct HarnessError {
    yorel::yomm2::error_type err;
};
struct HarnessCallError {
    int code;
    size_t arity;
    type_id types[16];
};

Outcome outcome_of(const yorel::yomm2::error_type& e);

// shared page for forked children (H_RETURN)
struct SharedPage {
    volatile int handler_calls;
    volatile int events;
    volatile int stage;
    Outcome::Kind kind;
    int status;
    size_t arity;
    type_id types[16];
    type_id etype;
};
SharedPage* shared_page();

} // namespace vf

#endif

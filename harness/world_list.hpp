// every policy of the matrix (one translation unit each, see pol.cpp)
#ifndef VF_WORLD_LIST
#define VF_WORLD_LIST(X)                                                                                               \
    X(P_dbg) X(P_rel) X(P_thr) X(P_vec) X(P_map) X(P_ind) X(P_indc) X(P_proj) X(P_projm) X(P_projv) X(P_def) X(P_b) X(P_c) X(P_m1) X(P_m2)
#endif

// C18: the registration catalogs (detail::static_list) enumerate exactly the
// live registrations, each once, in registration order, whatever the sequence
// of registrations, unregistrations and clears.
#include "monitors.hpp"

namespace vf {

namespace {

struct LNode : yorel::yomm2::detail::static_list<LNode>::static_link {
    int id;
};

constexpr int POOL = 12;
LNode g_nodes[POOL]; // static storage: the links rely on zero-initialisation
using List = yorel::yomm2::detail::static_list<LNode>;
List g_list;

// op encoding: 0..n-1 push k, n..2n-1 remove k, 2n clear
struct Model {
    std::vector<int> order;
    bool linked(int k) const {
        return std::find(order.begin(), order.end(), k) != order.end();
    }
};

std::string seq_str(const std::vector<int>& ops, int n) {
    std::string s = "[";
    for (size_t i = 0; i < ops.size(); ++i) {
        int op = ops[i];
        s += std::string(i ? "," : "") + "\"" + (op < n ? "push " + std::to_string(op) : op < 2 * n ? "remove " + std::to_string(op - n) : std::string("clear")) + "\"";
    }
    return s + "]";
}

// applies ops from scratch; returns "" or a description of the first divergence
std::string run_sequence(const std::vector<int>& ops, int n, long& evals) {
    g_list.clear();
    Model mo;
    auto check = [&](size_t step) -> std::string {
        std::vector<int> got, gotc;
        int guard = 0;
        std::vector<int> got_post, gotc_pre;
        for (auto it = g_list.begin(); it != g_list.end() && guard < 64; ++it, ++guard)
            got.push_back(it->id);
        guard = 0;
        for (auto it = g_list.begin(); it != g_list.end() && guard < 64; ++guard) {
            auto cur = it++; // the value of a post-increment is the position before it
            if (cur == g_list.end())
                return "after step " + std::to_string(step) + ": iterator post-increment returned end() before the end";
            got_post.push_back((*cur).id);
        }
        const List& cl = g_list;
        guard = 0;
        for (auto it = cl.begin(); it != cl.end() && guard < 64; ++guard) {
            auto cur = it++;
            if (cur == cl.end())
                return "after step " + std::to_string(step) + ": const_iterator post-increment returned end() before the end";
            gotc.push_back((*cur).id);
        }
        guard = 0;
        for (auto it = cl.begin(); it != cl.end() && guard < 64; ++it, ++guard)
            gotc_pre.push_back(it->id);
        ++evals;
        auto ls = [](const std::vector<int>& v) {
            std::string s = "(";
            for (int x : v)
                s += std::to_string(x) + " ";
            return s + ")";
        };
        if (got != mo.order)
            return "after step " + std::to_string(step) + ": iteration gives " + ls(got) + ", expected " + ls(mo.order);
        if (gotc != mo.order)
            return "after step " + std::to_string(step) + ": const iteration (it++) gives " + ls(gotc) + ", expected " + ls(mo.order);
        if (got_post != mo.order)
            return "after step " + std::to_string(step) + ": iteration with it++ gives " + ls(got_post) + ", expected " + ls(mo.order);
        if (gotc_pre != mo.order)
            return "after step " + std::to_string(step) + ": const iteration (++it) gives " + ls(gotc_pre) + ", expected " + ls(mo.order);
        if (g_list.size() != mo.order.size())
            return "after step " + std::to_string(step) + ": size() = " + std::to_string(g_list.size()) + ", expected " + std::to_string(mo.order.size());
        if (g_list.empty() != mo.order.empty())
            return "after step " + std::to_string(step) + ": empty() = " + std::to_string(g_list.empty()) + " with " + std::to_string(mo.order.size()) + " elements";
        // next() of each node
        for (size_t i = 0; i < mo.order.size(); ++i) {
            LNode* nx = g_nodes[mo.order[i]].next();
            LNode* want = i + 1 < mo.order.size() ? &g_nodes[mo.order[i + 1]] : nullptr;
            if (nx != want)
                return "after step " + std::to_string(step) + ": next() of node " + std::to_string(mo.order[i]) + " is wrong";
        }
        return "";
    };
    for (size_t i = 0; i < ops.size(); ++i) {
        int op = ops[i];
        if (op < n) {
            g_list.push_back(g_nodes[op]);
            mo.order.push_back(op);
        } else if (op < 2 * n) {
            g_list.remove(g_nodes[op - n]);
            mo.order.erase(std::find(mo.order.begin(), mo.order.end(), op - n));
        } else {
            g_list.clear();
            mo.order.clear();
        }
        std::string e = check(i);
        if (!e.empty())
            return e;
    }
    g_list.clear();
    return "";
}

bool legal(const Model& mo, int op, int n) {
    if (op < n)
        return !mo.linked(op);
    if (op < 2 * n)
        return mo.linked(op - n);
    return true;
}

} // namespace

int prop_list(Run& run) {
    bool thorough = run.tier == "thorough";
    for (int i = 0; i < POOL; ++i)
        g_nodes[i].id = i;
    long evals = 0;
    std::set<std::string> keys;
    auto report = [&](const std::vector<int>& ops, int n, const std::string& e, const char* phase) {
        // key: the shape of the shortest failing suffix (kind of the last two operations + position of the removed node)
        std::string last = ops.back() < n ? "push" : ops.back() < 2 * n ? "remove" : "clear";
        std::string prev = ops.size() < 2 ? "start" : ops[ops.size() - 2] < n ? "push" : ops[ops.size() - 2] < 2 * n ? "remove" : "clear";
        return run.violation(std::string("C18:static_list:") + prev + "-then-" + last,
                             "{\"phase\":" + jstr(phase) + ",\"operations\":" + seq_str(ops, n) + ",\"divergence\":" + jstr(e) + "}");
    };
    // --- (a) exhaustive: every legal sequence up to a bounded length over a small pool
    if (run.has_extra("exhaustive") && (run.only_case < 0 || run.only_case == 0)) {
        run.cur_case = 0;
        int n = thorough ? 5 : 4;
        int maxlen = (int)run.extra_val("maxlen", thorough ? 10 : 9);
        // sequences are enumerated depth first; each is replayed from an empty list
        // (cost is dominated by the leaves). The process handles its share of first operations.
        std::vector<int> ops;
        long sequences = 0;
        bool stop = false;
        std::function<void(Model&)> rec = [&](Model& mo) {
            if (stop)
                return;
            if (!ops.empty()) {
                ++sequences;
                std::string e = run_sequence(ops, n, evals);
                if (!e.empty()) {
                    stop = report(ops, n, e, "exhaustive");
                    return; // extensions of a failing sequence are not explored
                }
            }
            if ((int)ops.size() == maxlen)
                return;
            for (int op = 0; op <= 2 * n; ++op) {
                if (!legal(mo, op, n))
                    continue;
                if (op == 2 * n && mo.order.empty() && !ops.empty() && ops.back() == 2 * n)
                    continue; // clear after clear adds nothing
                // split the top level over the processes of the check
                if (ops.empty() && run.extra_val("shards", 1) > 1 && (op % run.extra_val("shards", 1)) != (long)(run.seed % (uint64_t)run.extra_val("shards", 1)))
                    continue;
                Model m2 = mo;
                if (op < n)
                    m2.order.push_back(op);
                else if (op < 2 * n)
                    m2.order.erase(std::find(m2.order.begin(), m2.order.end(), op - n));
                else
                    m2.order.clear();
                ops.push_back(op);
                rec(m2);
                ops.pop_back();
                if (stop)
                    return;
            }
        };
        Model m0;
        rec(m0);
        run.count("exhaustive.sequences", sequences);
        run.count("exhaustive.max-length", maxlen);
        run.count("exhaustive.pool", n);
        for (long k = 0; k < std::min<long>(sequences, 200000); ++k)
            run.distinct.insert(0x1000000000ull + (run.seed % 16) * 0x10000000ull + (uint64_t)k);
        run.sample("{\"phase\":\"exhaustive\",\"pool\":" + std::to_string(n) + ",\"max_length\":" + std::to_string(maxlen) + ",\"sequences\":" + std::to_string(sequences) + ",\"example\":[\"push 0\",\"push 1\",\"push 2\",\"remove 1\",\"remove 2\",\"push 1\",\"clear\"]}");
        if (stop) {
            run.evaluations += evals;
            return 1;
        }
    }
    // --- (b) random long sequences over 12 nodes; (c) the real catalogs through registration operations
    auto ws = suitable_worlds(run, true, true);
    for (long cs = 1; cs <= run.cases; ++cs) {
        if (run.only_case >= 0 && cs != run.only_case)
            continue;
        run.cur_case = cs;
        Rng rng(run.seed, (uint64_t)cs);
        if (cs % 2 == 1) {
            int n = POOL;
            int len = rng.range(10, 200);
            std::vector<int> ops;
            Model mo;
            for (int i = 0; i < len; ++i) {
                int op;
                int tries = 0;
                do {
                    int k = (int)rng.below(100);
                    op = k < 2 ? 2 * n : k < 52 ? (int)rng.below(n) : n + (int)rng.below(n);
                    // removals biased to first / last / middle of the current order
                    if (op >= n && op < 2 * n && !mo.order.empty() && rng.chance(2, 3)) {
                        int pos = rng.chance(1, 3) ? 0 : rng.chance(1, 2) ? (int)mo.order.size() - 1 : (int)rng.below(mo.order.size());
                        op = n + mo.order[pos];
                    }
                } while (!legal(mo, op, n) && ++tries < 50);
                if (!legal(mo, op, n))
                    continue;
                if (op < n)
                    mo.order.push_back(op);
                else if (op < 2 * n)
                    mo.order.erase(std::find(mo.order.begin(), mo.order.end(), op - n));
                else
                    mo.order.clear();
                ops.push_back(op);
            }
            set_current_case(run, "static_list", "{\"operations\":" + seq_str(ops, n) + "}");
            std::string e = run_sequence(ops, n, evals);
            run.count("random.sequences");
            run.distinct.insert(std::hash<std::string>()(seq_str(ops, n)));
            if (run.samples.size() < 3 && ops.size() < 16)
                run.sample("{\"phase\":\"random\",\"operations\":" + seq_str(ops, n) + "}");
            if (!e.empty()) {
                // shrink: shortest failing prefix
                std::vector<int> pre;
                for (int op : ops) {
                    pre.push_back(op);
                    if (!run_sequence(pre, n, evals).empty())
                        break;
                }
                if (report(pre, n, e, "random"))
                    break;
            }
        } else if (!ws.empty()) {
            // the policy's catalogs through the registration operations the front-end performs
            IWorld* w = ws[(size_t)((cs / 2 + run.seed) % ws.size())];
            GenProfile prof;
            prof.max_classes = 8;
            prof.max_methods = 4;
            prof.max_defs = 5;
            Registry r = gen_registry(rng, prof, (int)rng.below(NPRES), pick_flavour(rng, w->caps()));
            w->soft_reset();
            w->bind(r);
            std::vector<int> mc, mm;                     // model: record indexes / method indexes in order
            std::vector<std::vector<int>> md(r.methods.size()); // definitions per method
            std::vector<std::string> log;
            auto verify = [&]() -> std::string {
                for (int ci = 0; ci < 2; ++ci) {
                    auto got = w->catalog_class_records(ci != 0);
                    ++evals;
                    if (got.size() != mc.size())
                        return "class catalog enumerates " + std::to_string(got.size()) + " records, " + std::to_string(mc.size()) + " are registered";
                    for (size_t i = 0; i < mc.size(); ++i)
                        if (got[i] != w->class_record_address(mc[i]))
                            return "class catalog: position " + std::to_string(i) + " is not record " + std::to_string(mc[i]);
                    auto gm = w->catalog_method_records(ci != 0);
                    if (gm.size() != mm.size())
                        return "method catalog enumerates " + std::to_string(gm.size()) + " methods, " + std::to_string(mm.size()) + " are registered";
                    for (size_t i = 0; i < mm.size(); ++i)
                        if (gm[i] != (const void*)w->method(r, mm[i]).info)
                            return "method catalog: position " + std::to_string(i) + " is not method " + std::to_string(mm[i]);
                    for (size_t m = 0; m < r.methods.size(); ++m) {
                        size_t sz = 0;
                        bool em = false;
                        auto gd = w->catalog_definition_records(r, (int)m, ci != 0, sz, em);
                        if (gd.size() != md[m].size() || sz != md[m].size() || em != md[m].empty())
                            return "definitions of method " + std::to_string(m) + ": enumerates " + std::to_string(gd.size()) + ", size() " + std::to_string(sz) + ", " + std::to_string(md[m].size()) + " are registered";
                        for (size_t i = 0; i < md[m].size(); ++i)
                            if (gd[i] != w->definition_record_address(r, (int)m, md[m][i]))
                                return "definitions of method " + std::to_string(m) + ": position " + std::to_string(i) + " is not definition " + std::to_string(md[m][i]);
                    }
                }
                if (w->catalog_classes() != mc.size() || w->catalog_methods() != mm.size())
                    return "size() of a catalog differs from the number of registrations";
                bool ce, me;
                w->catalogs_empty(ce, me);
                if (ce != mc.empty() || me != mm.empty())
                    return "empty() of a catalog is wrong";
                return "";
            };
            int nops = rng.range(10, 80);
            std::string err;
            for (int i = 0; i < nops && err.empty(); ++i) {
                int kind = (int)rng.below(13);
                if (kind < 3) {
                    std::vector<int> cand;
                    for (size_t k = 0; k < r.records.size(); ++k)
                        if (std::find(mc.begin(), mc.end(), (int)k) == mc.end())
                            cand.push_back((int)k);
                    if (cand.empty())
                        continue;
                    int k = cand[rng.below(cand.size())];
                    w->add_record(r, k);
                    mc.push_back(k);
                    log.push_back("register class record " + std::to_string(k));
                } else if (kind < 5) {
                    if (mc.empty())
                        continue;
                    size_t pos = rng.chance(1, 3) ? 0 : rng.chance(1, 2) ? mc.size() - 1 : rng.below(mc.size());
                    w->remove_record(mc[pos]);
                    log.push_back("unregister class record " + std::to_string(mc[pos]) + " (position " + std::to_string(pos) + " of " + std::to_string(mc.size()) + ")");
                    mc.erase(mc.begin() + pos);
                } else if (kind < 7) {
                    std::vector<int> cand;
                    for (size_t m = 0; m < r.methods.size(); ++m)
                        if (std::find(mm.begin(), mm.end(), (int)m) == mm.end())
                            cand.push_back((int)m);
                    if (cand.empty())
                        continue;
                    int m = cand[rng.below(cand.size())];
                    w->attach_method(r, m);
                    mm.push_back(m);
                    log.push_back("register method " + std::to_string(m));
                } else if (kind < 8) {
                    if (mm.empty())
                        continue;
                    size_t pos = rng.chance(1, 3) ? 0 : rng.chance(1, 2) ? mm.size() - 1 : rng.below(mm.size());
                    w->detach_method(r, mm[pos]);
                    log.push_back("unregister method " + std::to_string(mm[pos]) + " (position " + std::to_string(pos) + " of " + std::to_string(mm.size()) + ")");
                    mm.erase(mm.begin() + pos);
                } else if (kind < 10) {
                    std::vector<std::pair<int, int>> cand;
                    for (size_t m = 0; m < r.methods.size(); ++m)
                        for (size_t d = 0; d < r.methods[m].defs.size(); ++d)
                            if (std::find(md[m].begin(), md[m].end(), (int)d) == md[m].end())
                                cand.push_back({(int)m, (int)d});
                    if (cand.empty())
                        continue;
                    auto pr = cand[rng.below(cand.size())];
                    w->add_def(r, pr.first, pr.second);
                    md[pr.first].push_back(pr.second);
                    log.push_back("register definition " + std::to_string(pr.second) + " of method " + std::to_string(pr.first));
                } else if (kind < 12) {
                    std::vector<int> cand;
                    for (size_t m = 0; m < r.methods.size(); ++m)
                        if (!md[m].empty())
                            cand.push_back((int)m);
                    if (cand.empty())
                        continue;
                    int m = cand[rng.below(cand.size())];
                    size_t pos = rng.chance(1, 3) ? 0 : rng.chance(1, 2) ? md[m].size() - 1 : rng.below(md[m].size());
                    w->remove_def(r, m, md[m][pos]);
                    log.push_back("unregister definition " + std::to_string(md[m][pos]) + " of method " + std::to_string(m) + " (position " + std::to_string(pos) + " of " + std::to_string(md[m].size()) + ")");
                    md[m].erase(md[m].begin() + pos);
                } else {
                    int which = (int)rng.below(3);
                    int m = r.methods.empty() ? 0 : (int)rng.below(r.methods.size());
                    if (which == 2 && r.methods.empty())
                        continue;
                    w->clear_catalog(which, r, m);
                    if (which == 0)
                        mc.clear();
                    else if (which == 1)
                        mm.clear();
                    else
                        md[m].clear();
                    log.push_back(which == 0 ? "clear class catalog" : which == 1 ? "clear method catalog" : "clear definitions of method " + std::to_string(m));
                }
                std::string lj = "[";
                for (size_t q = 0; q < log.size(); ++q)
                    lj += (q ? "," : "") + jstr(log[q]);
                lj += "]";
                set_current_case(run, w->name(), "{\"operations\":" + lj + "}");
                err = verify();
                if (!err.empty()) {
                    std::string last = log.back().substr(0, log.back().find(' ', log.back().find(' ') + 1));
                    run.violation("C18:catalog:" + std::string(err.substr(0, err.find(' '))) + "-after-" + last.substr(0, last.find(' ')),
                                  "{\"world\":" + jstr(w->name()) + ",\"operations\":" + lj + ",\"divergence\":" + jstr(err) + "}");
                }
            }
            run.count("catalog.histories");
            run.count("catalog.operations", (long)log.size());
            uint64_t hh = 7;
            for (auto& s : log)
                hh = hh * 1099511628211ull ^ std::hash<std::string>()(s);
            run.distinct.insert(hh);
            w->soft_reset();
            if (!err.empty() && run.violations.size() >= 3)
                break;
        }
    }
    run.evaluations += evals;
    return run.violations.empty() ? 0 : 1;
}

} // namespace vf

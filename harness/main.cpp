// Harness entry point: harness --prop Cxx --seed S --cases N [--only-case K]
//                              [--out dir] [--policy a,b] [--tier t] [--x flag]...
#include "run.hpp"
#include "world_list.hpp"

#include <chrono>
#include <csignal>
#include <fcntl.h>
#include <sys/mman.h>
#include <unistd.h>

namespace vf {

// property drivers
int prop_dispatch(Run&); // C01 C02 C03 C04 C17 (monitor selected by run.prop)
int prop_order(Run&);    // C06
int prop_history(Run&);  // C07
int prop_present(Run&);  // C08
int prop_vptr(Run&);     // C09
int prop_rtti(Run&);     // C10
int prop_offsets(Run&);  // C12
int prop_encode(Run&);   // C13
int prop_isolation(Run&); // C14
int prop_unknown(Run&);  // C15
int prop_threads(Run&);  // C16
int prop_list(Run&);     // C18
int prop_fwd(Run&);      // C19
int prop_hash(Run&);     // C05

#ifndef VF_PROPS
#define VF_PROPS                                                                                                       \
    {"C01", prop_dispatch}, {"C02", prop_dispatch}, {"C03", prop_dispatch}, {"C04", prop_dispatch},                    \
        {"C17", prop_dispatch}, {"C06", prop_order}, {"C08", prop_present}, {"C10", prop_rtti}, {"C05", prop_hash}, {"C07", prop_history}, {"C09", prop_vptr}, {"C12", prop_offsets}, {"C13", prop_encode}, {"C14", prop_isolation}, {"C15", prop_unknown}, {"C16", prop_threads}, {"C18", prop_list}, {"C19", prop_fwd},
#endif

static PropEntry g_props[] = {VF_PROPS{nullptr, nullptr}};

// worlds (one TU per policy)
#define VF_DECL(P) IWorld* make_world_##P();
VF_WORLD_LIST(VF_DECL)
#undef VF_DECL

type_id g_deferred_ids[MAXC * MAXALIAS];

std::vector<IWorld*>& worlds() {
    static std::vector<IWorld*> w;
    return w;
}

IWorld* find_world(const std::string& name) {
    for (auto w : worlds())
        if (name == w->name())
            return w;
    return nullptr;
}

static void init_worlds() {
#define VF_MK(P) worlds().push_back(make_world_##P());
    VF_WORLD_LIST(VF_MK)
#undef VF_MK
}

std::string hex(uint64_t v) {
    char b[32];
    snprintf(b, sizeof b, "0x%llx", (unsigned long long)v);
    return b;
}

Outcome outcome_of(const yorel::yomm2::error_type& e) {
    using namespace yorel::yomm2;
    Outcome o;
    if (auto p = std::get_if<resolution_error>(&e)) {
        o.kind = Outcome::RES_ERR;
        o.status = p->status;
        o.arity = p->arity;
        for (int i = 0; i < 16; ++i)
            o.types[i] = p->types[i];
    } else if (auto p = std::get_if<unknown_class_error>(&e)) {
        o.kind = Outcome::UNKNOWN_CLASS;
        o.etype = p->type;
    } else if (auto p = std::get_if<method_table_error>(&e)) {
        o.kind = Outcome::TABLE_ERR;
        o.etype = p->type;
    } else if (auto p = std::get_if<hash_search_error>(&e)) {
        o.kind = Outcome::HASH_ERR;
        o.attempts = p->attempts;
        o.buckets = p->buckets;
    } else if (std::get_if<static_slot_error>(&e)) {
        o.kind = Outcome::SLOT_ERR;
    } else if (std::get_if<static_stride_error>(&e)) {
        o.kind = Outcome::STRIDE_ERR;
    } else {
        o.kind = Outcome::OTHER_ERR;
    }
    return o;
}

std::string Outcome::str() const {
    static const char* k[] = {"ran",        "resolution_error", "unknown_class_error", "method_table_error",
                              "hash_search_error", "static_slot_error", "static_stride_error", "other_error"};
    std::string s = k[kind];
    if (kind == RAN) {
        s += " events=[";
        for (auto& e : events)
            s += "m" + std::to_string(e.muid) + "/def" + std::to_string(e.def) + " ";
        s += "] ret=" + std::to_string(ret);
    } else if (kind == RES_ERR) {
        s += status == 1 ? " no_definition" : status == 2 ? " ambiguous" : " status?" + std::to_string(status);
        s += " arity=" + std::to_string(arity) + " types=[";
        for (size_t i = 0; i < arity && i < 16; ++i)
            s += hex(types[i]) + " ";
        s += "]";
        if (via_call_error)
            s += " (call_error hook)";
    } else if (kind == UNKNOWN_CLASS || kind == TABLE_ERR) {
        s += " type=" + hex(etype);
    } else if (kind == OTHER_ERR && status == -2) {
        s += " (virtual_ptr argument holds a v-table pointer that is not its pointee's)";
    } else if (kind == OTHER_ERR && status == -3) {
        s += " (copying a virtual_ptr changed the virtual_ptr it was copied from)";
    }
    return s;
}

SharedPage* shared_page() {
    static SharedPage* p = nullptr;
    if (!p) {
        p = (SharedPage*)mmap(nullptr, 4096, PROT_READ | PROT_WRITE, MAP_SHARED | MAP_ANONYMOUS, -1, 0);
        memset((void*)p, 0, sizeof *p);
    }
    return p;
}

// ---------------------------------------------------------------------------

bool Run::want_policy(const char* name) const {
    if (policy_filter.empty())
        return true;
    std::string f = "," + policy_filter + ",";
    return f.find("," + std::string(name) + ",") != std::string::npos;
}

bool Run::has_extra(const char* flag) const {
    for (auto& e : extra)
        if (e == flag)
            return true;
    return false;
}

long Run::extra_val(const char* name, long dflt) const {
    std::string pre = std::string(name) + "=";
    for (auto& e : extra)
        if (e.compare(0, pre.size(), pre) == 0)
            return atol(e.c_str() + pre.size());
    return dflt;
}

static std::string sanitize(const std::string& k) {
    std::string o;
    for (char c : k)
        o += (isalnum((unsigned char)c) || c == '-' || c == '_') ? c : '_';
    return o;
}

bool Run::violation(const std::string& key, const std::string& detail_json) {
    char name[512];
    snprintf(
        name, sizeof name, "%s/%s-s%llu-c%ld-%zu-%s.json", outdir.c_str(), prop.c_str(), (unsigned long long)seed,
        cur_case, violations.size(), sanitize(key).substr(0, 60).c_str());
    FILE* f = fopen(name, "w");
    if (f) {
        fprintf(
            f, "{\"property\":%s,\"key\":%s,\"seed\":%llu,\"case\":%ld,\"tier\":%s,\"policy_filter\":%s,\"extra\":[",
            jstr(prop).c_str(), jstr(key).c_str(), (unsigned long long)seed, cur_case, jstr(tier).c_str(),
            jstr(policy_filter).c_str());
        for (size_t i = 0; i < extra.size(); ++i)
            fprintf(f, "%s%s", i ? "," : "", jstr(extra[i]).c_str());
        fprintf(f, "],\"detail\":%s}\n", detail_json.c_str());
        fclose(f);
    }
    violations.push_back({key, name});
    printf("VFVIOLATION key=%s witness=%s\n", key.c_str(), name);
    fflush(stdout);
    return violations.size() >= 12;
}

void Run::print_summary(double wall_s) const {
    std::ostringstream os;
    os << "VFSUMMARY {\"prop\":" << jstr(prop) << ",\"seed\":" << seed << ",\"cases\":" << cases
       << ",\"evaluations\":" << evaluations << ",\"events\":" << events << ",\"distinct\":[";
    size_t k = 0;
    for (auto h : distinct) {
        if (k++ >= 200000)
            break;
        os << (k > 1 ? "," : "") << "\"" << std::hex << h << std::dec << "\"";
    }
    os << "],\"distinct_count\":" << distinct.size() << ",\"hist\":{";
    k = 0;
    for (auto& kv : hist)
        os << (k++ ? "," : "") << jstr(kv.first) << ":" << kv.second;
    os << "},\"inconclusive\":{";
    k = 0;
    for (auto& kv : inconclusive)
        os << (k++ ? "," : "") << jstr(kv.first) << ":" << kv.second;
    os << "},\"violations\":[";
    k = 0;
    for (auto& v : violations)
        os << (k++ ? "," : "") << "{\"key\":" << jstr(v.key) << ",\"witness\":" << jstr(v.witness) << "}";
    os << "],\"samples\":[";
    k = 0;
    for (auto& s : samples)
        os << (k++ ? "," : "") << s;
    os << "],\"wall_s\":" << wall_s << "}";
    puts(os.str().c_str());
    fflush(stdout);
}

// ---------------------------------------------------------------------------
// crash witnesses

static char g_case_buf[1 << 16];
static char g_crash_path[600];
static const char* volatile g_stage = "start";
static char g_world[64];
static char g_prop[16];

void set_stage(const char* stage) {
    g_stage = stage;
}

void set_current_case(const Run& run, const char* world, const std::string& json) {
    snprintf(g_world, sizeof g_world, "%s", world);
    snprintf(
        g_crash_path, sizeof g_crash_path, "%s/%s-s%llu-c%ld-crash.json", run.outdir.c_str(), run.prop.c_str(),
        (unsigned long long)run.seed, run.cur_case);
    std::string extra;
    for (size_t i = 0; i < run.extra.size(); ++i)
        extra += (i ? "," : "") + jstr(run.extra[i]);
    snprintf(
        g_case_buf, sizeof g_case_buf,
        "{\"property\":%s,\"seed\":%llu,\"case\":%ld,\"tier\":%s,\"policy_filter\":%s,\"extra\":[%s],\"world\":%s,\"detail\":%.60000s}\n",
        jstr(run.prop).c_str(), (unsigned long long)run.seed, run.cur_case, jstr(run.tier).c_str(),
        jstr(run.policy_filter).c_str(), extra.c_str(), jstr(world).c_str(), json.c_str());
}

static void crash_handler(int sig) {
    // async-signal-safe only
    int fd = open(g_crash_path, O_WRONLY | O_CREAT | O_TRUNC, 0644);
    if (fd >= 0) {
        (void)!write(fd, g_case_buf, strlen(g_case_buf));
        close(fd);
    }
    char line[900];
    const char* sn = sig == SIGSEGV ? "SIGSEGV" : sig == SIGABRT ? "SIGABRT" : sig == SIGBUS ? "SIGBUS" : sig == SIGFPE ? "SIGFPE" : "SIGILL";
    int n = snprintf(line, sizeof line, "\nVFCRASH key=%s:crash:%s:%s:%s witness=%s\n", g_prop, sn, g_stage, g_world, g_crash_path);
    (void)!write(1, line, n);
    _exit(3);
}

void install_crash_handlers(Run* run) {
    snprintf(g_prop, sizeof g_prop, "%s", run->prop.c_str());
    snprintf(g_crash_path, sizeof g_crash_path, "%s/%s-crash-early.json", run->outdir.c_str(), run->prop.c_str());
    strcpy(g_case_buf, "{}\n");
    strcpy(g_world, "-");
    struct sigaction sa;
    memset(&sa, 0, sizeof sa);
    sa.sa_handler = crash_handler;
    sigemptyset(&sa.sa_mask);
    for (int s : {SIGSEGV, SIGABRT, SIGBUS, SIGFPE, SIGILL})
        sigaction(s, &sa, nullptr);
}

} // namespace vf

int main(int argc, char** argv) {
    using namespace vf;
    setvbuf(stdout, nullptr, _IOLBF, 0);
    Run run;
    for (int i = 1; i < argc; ++i) {
        std::string a = argv[i];
        auto val = [&]() -> std::string { return i + 1 < argc ? argv[++i] : ""; };
        if (a == "--prop")
            run.prop = val();
        else if (a == "--seed")
            run.seed = strtoull(val().c_str(), nullptr, 10);
        else if (a == "--cases")
            run.cases = atol(val().c_str());
        else if (a == "--only-case")
            run.only_case = atol(val().c_str());
        else if (a == "--out")
            run.outdir = val();
        else if (a == "--policy")
            run.policy_filter = val();
        else if (a == "--tier")
            run.tier = val();
        else if (a == "--x")
            run.extra.push_back(val());
        else {
            fprintf(stderr, "harness: unknown argument %s\n", a.c_str());
            return 2;
        }
    }
    PropFn fn = nullptr;
    for (auto* p = g_props; p->id; ++p)
        if (run.prop == p->id)
            fn = p->fn;
    if (!fn) {
        fprintf(stderr, "harness: unknown property %s\n", run.prop.c_str());
        return 2;
    }
    install_crash_handlers(&run);
    init_worlds();
    auto t0 = std::chrono::steady_clock::now();
    int rc = fn(run);
    double wall = std::chrono::duration<double>(std::chrono::steady_clock::now() - t0).count();
    run.print_summary(wall);
    fflush(stdout);
    fflush(stderr);
    if (rc == 0 && !run.violations.empty())
        rc = 1;
    _exit(rc);
}

// Run bookkeeping: counters, histograms, violations with witness files,
// crash handlers, summary line.
#ifndef VF_RUN_HPP
#define VF_RUN_HPP

#include "world.hpp"

#include <map>
#include <set>

namespace vf {

struct Violation {
    std::string key;
    std::string witness;
};

struct Run {
    std::string prop;
    std::string tier = "quick";
    uint64_t seed = 1;
    long cases = 100;
    long only_case = -1;
    std::string outdir = ".";
    std::string policy_filter; // comma separated; empty = all suitable
    std::vector<std::string> extra;

    long evaluations = 0;
    long events = 0;
    std::set<uint64_t> distinct;
    std::map<std::string, long> hist;
    std::map<std::string, long> inconclusive;
    std::vector<Violation> violations;
    std::vector<std::string> samples;
    long cur_case = -1;

    bool want_policy(const char* name) const;
    bool has_extra(const char* flag) const;
    long extra_val(const char* name, long dflt) const;
    void count(const std::string& k, long n = 1) {
        hist[k] += n;
    }
    void sample(const std::string& json, size_t max = 3) {
        if (samples.size() < max)
            samples.push_back(json);
    }
    // records a violation; writes the witness file; returns true when the run
    // should stop (too many violations)
    bool violation(const std::string& key, const std::string& detail_json);
    void print_summary(double wall_s) const;
};

// the case currently running, for crash witnesses
void set_current_case(const Run& run, const char* world, const std::string& json);
void set_stage(const char* stage);
void install_crash_handlers(Run* run);

std::string hex(uint64_t v);

typedef int (*PropFn)(Run&);
struct PropEntry {
    const char* id;
    PropFn fn;
};

} // namespace vf

#endif

// C16: once update has returned, any number of threads may call, resolve,
// create / copy / move / convert virtual_ptrs concurrently - and another policy
// may be updated meanwhile - without data races (ThreadSanitizer flavour) and
// with the single-threaded answers.
#include "monitors.hpp"

#include <atomic>
#include <sched.h>
#include <thread>

namespace vf {

namespace {

struct Item {
    int world; // index in the case's worlds
    int m;
    CallSpec cs;
    std::string expect;  // outcome class computed single-threaded
    void* expect_pf;     // resolve() result, when the call resolves
};

struct ThreadLog {
    long ops = 0, calls = 0, resolves = 0, probes = 0, errors = 0;
    std::vector<std::pair<uint64_t, uint64_t>> intervals; // logical clock
    std::vector<std::string> mismatches;
};

std::string row_of(const Registry& r, int m, const Outcome& o) {
    std::string s = outcome_class(r, m, o);
    if (o.kind == Outcome::RAN && o.events.size() == 1) {
        for (int i = 0; i < g_shapes[r.methods[m].shape].nparams; ++i)
            if (o.events[0].obs[i] != o.expect_obs[i])
                s += " ARG-MISMATCH";
    } else if (o.kind == Outcome::RES_ERR) {
        s += " arity=" + std::to_string(o.arity);
        for (size_t i = 0; i < o.arity && i < 16; ++i)
            s += " " + hex(o.types[i]);
    }
    return s;
}

} // namespace

int prop_threads(Run& run) {
    bool thorough = run.tier == "thorough";
    GenProfile prof;
    prof.min_classes = 3;
    prof.max_classes = 10;
    prof.max_methods = 5;
    prof.max_defs = 5;
    const char* wnames[] = {"P_rel", "P_dbg", "P_map", "P_ind", "P_indc", "P_vec", "P_thr", "P_m1"};
    long ops_per_thread = run.extra_val("ops", thorough ? 40000 : 15000);
    for (long cs = 0; cs < run.cases; ++cs) {
        if (run.only_case >= 0 && cs != run.only_case)
            continue;
        run.cur_case = cs;
        Rng rng(run.seed, (uint64_t)cs);
        int nthreads = (int)run.extra_val("threads", rng.range(4, thorough ? 16 : 8));
        // two or three caller worlds + the unrelated policy updated concurrently
        std::vector<int> pick = {0, 1, 2, 3, 4, 5, 6, 7};
        rng.shuffle(pick);
        bool rebound_pair = rng.chance(1, 3); // callers on P_m1 while P_m2 = P_m1::rebind<P_m2> is updated
        if (rebound_pair)
            for (size_t i = 0; i < pick.size(); ++i)
                if (pick[i] == 7)
                    std::swap(pick[0], pick[i]);
        std::vector<IWorld*> ws;
        for (int i = 0; i < 3; ++i) {
            IWorld* w = find_world(wnames[pick[i]]);
            if (w && run.want_policy(w->name()))
                ws.push_back(w);
        }
        IWorld* other = find_world(rebound_pair ? "P_m2" : "P_c");
        if (ws.empty() || !other)
            return 2;
        // one table of ids (small integers so that every policy can use it), one graph per world
        std::vector<Registry> regs;
        std::vector<std::unique_ptr<Oracle>> oracles;
        Registry idtab;
        idtab.n = MAXC;
        idtab.bases.assign(MAXC, {});
        assign_ids(rng, idtab, 0, 1);
        auto make_reg = [&](Registry& r, std::unique_ptr<Oracle>& o) {
            gen_graph(rng, prof, r);
            o.reset(new Oracle(r));
            gen_methods(rng, prof, r, *o);
            r.ids.assign(r.n, {});
            for (int k = 0; k < r.n; ++k)
                r.ids[k] = {idtab.ids[k][0]};
            r.idflavour = "small-int";
            gen_presentation(rng, r, *o, (int)rng.below(NPRES));
            r.static_class[0] = 0;
            r.static_class[1] = 1;
        };
        bool setup_ok = true;
        std::string setup_json = "[";
        for (auto w : ws) {
            regs.emplace_back();
            oracles.emplace_back();
            make_reg(regs.back(), oracles.back());
            w->hard_reset();
            w->set_handler(H_THROW);
            w->materialize(regs.back());
            set_current_case(run, w->name(), dump_registry(regs.back()));
            UpdateResult u = w->update();
            if (!u.ok)
                setup_ok = false;
            setup_ok = setup_ok && w->hold_vptrs(regs.back()).kind == Outcome::RAN;
            setup_json += std::string(setup_json.size() > 1 ? "," : "") + "{\"world\":" + jstr(w->name()) + ",\"registry\":" + dump_registry(regs.back()) + "}";
        }
        setup_json += "]";
        if (!setup_ok) {
            run.inconclusive["setup-update-failed"]++;
            continue;
        }
        // the sequential answers
        std::vector<Item> items;
        for (size_t wi = 0; wi < ws.size(); ++wi) {
            auto& r = regs[wi];
            for (size_t m = 0; m < r.methods.size(); ++m) {
                std::vector<std::vector<int>> tuples;
                enum_tuples(rng, r, *oracles[wi], r.methods[m], 60, tuples);
                for (auto& t : tuples)
                    for (int rep = 0; rep < 2; ++rep) {
                        Item it;
                        it.world = (int)wi;
                        it.m = (int)m;
                        it.cs = CallSpec{};
                        for (size_t i = 0; i < t.size(); ++i) {
                            it.cs.tuple[i] = t[i];
                            it.cs.alias[i] = 0;
                        }
                        it.cs.nvseed = rng.next();
                        choose_routes(rng, r, r.methods[m], it.cs, true);
                        if (rep == 1) { // pointers created before the threads start
                            const char* sig = g_shapes[r.methods[m].shape].sig;
                            int vi = 0;
                            for (int i = 0; sig[i]; ++i)
                                if (sig[i] >= 'A' && sig[i] <= 'Z') {
                                    if (sig[i] == 'Q' || sig[i] == 'K' || sig[i] == 'H' || sig[i] == 'J')
                                        it.cs.route[vi] = RT_HELD;
                                    ++vi;
                                }
                        }
                        Outcome o = ws[wi]->call(r, (int)m, it.cs);
                        it.expect = row_of(r, (int)m, o);
                        Sel s = oracles[wi]->select(r.methods[m], t);
                        std::string want = s.str();
                        if (it.expect.compare(0, want.size(), want) != 0) {
                            // the single-threaded answer itself is wrong: not this property's
                            // business, but nothing can be compared against it
                            it.expect.clear();
                        }
                        Outcome ro;
                        it.expect_pf = o.kind == Outcome::RAN ? ws[wi]->resolve(r, (int)m, it.cs, ro) : nullptr;
                        if (!it.expect.empty())
                            items.push_back(it);
                    }
            }
        }
        if (items.size() < 4) {
            run.inconclusive["too-few-callable-tuples"]++;
            continue;
        }
        // registries for the concurrently updated, unrelated policy (same class ids)
        std::vector<Registry> oregs(4);
        std::vector<std::unique_ptr<Oracle>> ooracles(4);
        for (int i = 0; i < 4; ++i)
            make_reg(oregs[i], ooracles[i]);
        other->hard_reset();
        other->set_handler(H_THROW);
        set_current_case(run, "threads", "{\"threads\":" + std::to_string(nthreads) + ",\"worlds\":" + setup_json + "}");
        set_stage("threads");

        std::atomic<uint64_t> clock{0};
        std::atomic<int> ready{0};
        std::atomic<bool> go{false}, done{false};
        std::vector<ThreadLog> logs(nthreads + 2);
        std::vector<std::thread> threads;
        uint64_t tseed = rng.next();
        for (int t = 0; t < nthreads; ++t) {
            threads.emplace_back([&, t] {
                Rng trng(tseed, (uint64_t)t);
                ThreadLog& lg = logs[t];
                lg.intervals.reserve(2048);
                ready.fetch_add(1, std::memory_order_relaxed);
                while (!go.load(std::memory_order_relaxed))
                    sched_yield();
                for (long op = 0; op < ops_per_thread; ++op) {
                    const Item& it = items[trng.below(items.size())];
                    IWorld* w = ws[it.world];
                    const Registry& r = regs[it.world];
                    uint64_t b = clock.fetch_add(1, std::memory_order_relaxed);
                    int kind = (int)trng.below(10);
                    if (kind < 6) {
                        Outcome o = w->call(r, it.m, it.cs);
                        ++lg.calls;
                        if (o.kind != Outcome::RAN)
                            ++lg.errors;
                        std::string got = row_of(r, it.m, o);
                        if (got != it.expect && lg.mismatches.size() < 5)
                            lg.mismatches.push_back(std::string(w->name()) + " " + call_json(r, it.m, it.cs) + " expected " + it.expect + " got " + got);
                    } else if (kind < 8) {
                        if (it.expect_pf) {
                            Outcome ro;
                            void* pf = w->resolve(r, it.m, it.cs, ro);
                            ++lg.resolves;
                            if (pf != it.expect_pf && lg.mismatches.size() < 5)
                                lg.mismatches.push_back(std::string(w->name()) + " resolve " + call_json(r, it.m, it.cs) + " returned another pointer");
                        }
                    } else {
                        // create, copy, move, convert virtual_ptrs
                        int cls = it.cs.tuple[0];
                        int route = (int)trng.below(RT_HELD);
                        if (route == RT_FINAL && cls != r.static_class[0])
                            route = RT_PLAIN;
                        bool shared = trng.chance(1, 2);
                        if (route == RT_FROM_D && shared)
                            route = RT_COPY;
                        VptrProbe pr = w->probe_vptr(r, cls, 0, route, shared);
                        ++lg.probes;
                        bool useD = route == RT_FROM_D || route == RT_CONV_COPY || route == RT_CONV_MOVE;
                        if ((pr.out.kind != Outcome::RAN || pr.get != w->object(cls, 0, useD) || pr.vptr != *w->static_vptr_slot(cls)) && lg.mismatches.size() < 5)
                            lg.mismatches.push_back(std::string(w->name()) + " virtual_ptr to class " + std::to_string(cls) + " built concurrently is wrong");
                    }
                    uint64_t e = clock.fetch_add(1, std::memory_order_relaxed);
                    if ((op & 63) == 0 && lg.intervals.size() < 2000)
                        lg.intervals.push_back({b, e});
                    ++lg.ops;
                    if (trng.chance(1, 64))
                        sched_yield();
                    else if (trng.chance(1, 16))
                        for (volatile int spin = 0; spin < 50; ++spin) {
                        }
                }
            });
        }
        // the unrelated policies: registered, updated, called, unregistered, again and again
        // (half of the runs: two of them, each updated by its own thread)
        IWorld* other2 = rng.chance(1, 2) ? find_world("P_b") : nullptr;
        if (other2) {
            other2->hard_reset();
            other2->set_handler(H_THROW);
        }
        int nupdaters = other2 ? 2 : 1;
        logs.resize(nthreads + nupdaters);
        auto updater_body = [&](IWorld* ow, int slot, uint64_t useed) {
            ThreadLog& lg = logs[slot];
            Rng urng(tseed, useed);
            ready.fetch_add(1, std::memory_order_relaxed);
            while (!go.load(std::memory_order_relaxed))
                sched_yield();
            int k = (int)useed;
            while (!done.load(std::memory_order_relaxed)) {
                const Registry& r = oregs[k % 4];
                uint64_t b = clock.fetch_add(1, std::memory_order_relaxed);
                ow->materialize(r);
                UpdateResult u = ow->update();
                uint64_t e = clock.fetch_add(1, std::memory_order_relaxed);
                lg.intervals.push_back({b, e});
                ++lg.ops;
                if (u.ok && !r.methods.empty()) {
                    std::vector<std::vector<int>> tuples;
                    enum_tuples(urng, r, *ooracles[k % 4], r.methods[0], 8, tuples);
                    for (auto& t : tuples) {
                        CallSpec c2{};
                        for (size_t i = 0; i < t.size(); ++i)
                            c2.tuple[i] = t[i];
                        c2.nvseed = urng.next();
                        choose_routes(urng, r, r.methods[0], c2, false);
                        Outcome o = ow->call(r, 0, c2);
                        std::string want = ooracles[k % 4]->select(r.methods[0], t).str();
                        std::string got = outcome_class(r, 0, o);
                        ++lg.calls;
                        if (got != want && lg.mismatches.size() < 5)
                            lg.mismatches.push_back(std::string(ow->name()) + " (updated concurrently) " + call_json(r, 0, c2) + " expected " + want + " got " + got);
                    }
                }
                ++k;
                if (urng.chance(1, 4))
                    sched_yield();
            }
        };
        std::thread updater([&] { updater_body(other, nthreads, 777); });
        std::thread updater2;
        if (other2)
            updater2 = std::thread([&] { updater_body(other2, nthreads + 1, 778); });
        while (ready.load(std::memory_order_relaxed) < nthreads + nupdaters)
            sched_yield();
        go.store(true, std::memory_order_relaxed);
        for (auto& th : threads)
            th.join();
        done.store(true, std::memory_order_relaxed);
        updater.join();
        if (other2)
            updater2.join();
        set_stage("monitor");
        // evidence: calls, overlapping pairs actually observed
        long overlaps = 0, update_overlaps = 0;
        for (int a = 0; a < nthreads; ++a)
            for (int b = a + 1; b < nthreads; ++b) {
                size_t j = 0;
                auto& A = logs[a].intervals;
                auto& B = logs[b].intervals;
                for (size_t i = 0; i < A.size() && j < B.size(); ++i) {
                    while (j < B.size() && B[j].second < A[i].first)
                        ++j;
                    if (j < B.size() && B[j].first <= A[i].second)
                        ++overlaps;
                }
            }
        std::vector<std::pair<uint64_t, uint64_t>> upd_intervals = logs[nthreads].intervals;
        if (other2)
            upd_intervals.insert(upd_intervals.end(), logs[nthreads + 1].intervals.begin(), logs[nthreads + 1].intervals.end());
        long updates_overlapping_updates = 0;
        if (other2)
            for (auto& a : logs[nthreads].intervals)
                for (auto& b2 : logs[nthreads + 1].intervals)
                    if (a.first <= b2.second && b2.first <= a.second) {
                        ++updates_overlapping_updates;
                        break;
                    }
        for (auto& iv : upd_intervals) {
            bool any = false;
            for (int a = 0; a < nthreads && !any; ++a)
                for (auto& x : logs[a].intervals)
                    if (x.first <= iv.second && iv.first <= x.second) {
                        any = true;
                        break;
                    }
            update_overlaps += any;
        }
        bool stop = false;
        for (int t = 0; t < nthreads + nupdaters; ++t) {
            run.evaluations += logs[t].calls + logs[t].resolves + logs[t].probes;
            run.count("calls", logs[t].calls);
            run.count("resolves", logs[t].resolves);
            run.count("virtual_ptr-constructions", logs[t].probes);
            run.count("erroring-calls", logs[t].errors);
            for (auto& mm : logs[t].mismatches)
                if (!stop)
                    stop = run.violation(std::string("C16:concurrent-result-differs-from-sequential") + (t >= nthreads ? ":policy-updated-concurrently" : ""),
                                         "{\"threads\":" + std::to_string(nthreads) + ",\"what\":" + jstr(mm) + ",\"worlds\":" + setup_json + "}");
        }
        run.count("threads", nthreads);
        run.count("overlapping-call-pairs-sampled", overlaps);
        run.count("concurrent-updates-of-other-policy", (long)upd_intervals.size());
        run.count("runs-with-two-policies-updated-concurrently", other2 ? 1 : 0);
        run.count("updates-overlapping-an-update-of-another-policy", updates_overlapping_updates);
        run.count("concurrent-updates-overlapping-calls", update_overlaps);
        if (overlaps > 0) {
            run.distinct.insert(rng.next());
            if (run.samples.size() < 2)
                run.sample("{\"threads\":" + std::to_string(nthreads) + ",\"ops_per_thread\":" + std::to_string(ops_per_thread) + ",\"overlapping_pairs_sampled\":" + std::to_string(overlaps) +
                           ",\"updates_of_other_policy\":" + std::to_string(logs[nthreads].intervals.size()) + ",\"worlds\":[" + jstr(ws[0]->name()) + (ws.size() > 1 ? "," + jstr(ws[1]->name()) : "") + (ws.size() > 2 ? "," + jstr(ws[2]->name()) : "") + "]}");
        } else {
            run.inconclusive["no-overlap-observed"]++;
        }
        if (stop)
            return 1;
    }
    return run.violations.empty() ? 0 : 1;
}

} // namespace vf

// C19: generator::add_forward_declaration / write_forward_declarations.
#include "monitors.hpp"

#include <fstream>

namespace vf {

std::string glue_forward_declarations(const std::vector<std::string>& inputs);
std::vector<std::string> glue_fwd_wrapper_routes();

namespace {

// (identifiers starting with '_' and the names std / yorel are only used below the first level)
const char* const IDENTS[] = {"a", "ab", "abc", "b", "ba", "ns1", "ns10", "ns1_x", "Dog", "Do", "Dog2", "x", "x_y", "Animal", "An", "detail", "det", "_impl", "_q1", "c", "zz", "stdx", "yorelx", "std_", "voidx", "intr", "T",
                              "nonstd", "mystd", "xyorel", "std", "yorel", "v1", "v10", "detail2", "c7"};
constexpr int NIDENT = sizeof(IDENTS) / sizeof(IDENTS[0]);

std::string ident(Rng& rng, bool first_component) {
    for (;;) {
        const char* s = IDENTS[rng.below(NIDENT)];
        if (first_component && (s[0] == '_' || !strcmp(s, "std") || !strcmp(s, "yorel")))
            continue; // reserved in the global namespace / the library's own
        return s;
    }
}

// a random program structure: namespaces containing namespaces and classes; within one
// scope a name is either a class or a namespace
struct Scope {
    std::map<std::string, std::unique_ptr<Scope>> ns;
    std::set<std::string> classes;
};

void gen_names(Rng& rng, Scope& root, int count, std::set<std::string>& out) {
    for (int i = 0; i < count * 3 && (int)out.size() < count; ++i) {
        Scope* sc = &root;
        std::string q;
        int depth = rng.chance(1, 3) ? 0 : rng.range(0, 4);
        bool ok = true;
        for (int d = 0; d < depth; ++d) {
            std::string id = ident(rng, d == 0);
            if (sc->classes.count(id)) {
                ok = false;
                break;
            }
            auto& child = sc->ns[id];
            if (!child)
                child.reset(new Scope);
            sc = child.get();
            q += id + "::";
        }
        if (!ok)
            continue;
        std::string id = ident(rng, depth == 0);
        if (sc->ns.count(id) || id == "std" || id == "yorel")
            continue;
        if (depth == 0 && (id == "std" || id == "yorel"))
            continue;
        sc->classes.insert(id);
        out.insert(q + id);
    }
}

// parse the written text (token based, layout does not matter): a sequence of
//   namespace A[::B...] { ... }   and   class|struct X;
// returns false when it is not balanced / well formed
bool parse_decls(const std::string& text, std::multiset<std::string>& declared, std::string& why) {
    std::vector<std::string> toks;
    for (size_t i = 0; i < text.size();) {
        unsigned char ch = (unsigned char)text[i];
        if (isspace(ch)) {
            ++i;
        } else if (isalnum(ch) || ch == '_') {
            size_t j = i;
            while (j < text.size() && (isalnum((unsigned char)text[j]) || text[j] == '_'))
                ++j;
            toks.push_back(text.substr(i, j - i));
            i = j;
        } else if (ch == ':' && i + 1 < text.size() && text[i + 1] == ':') {
            toks.push_back("::");
            i += 2;
        } else if (ch == '{' || ch == '}' || ch == ';') {
            toks.push_back(std::string(1, (char)ch));
            ++i;
        } else if (ch == '/' && i + 1 < text.size() && text[i + 1] == '/') {
            while (i < text.size() && text[i] != '\n')
                ++i;
        } else {
            why = std::string("unexpected character '") + (char)ch + "'";
            return false;
        }
    }
    auto is_ident = [](const std::string& s) {
        static const char* kw[] = {"namespace", "class", "struct", "const", "volatile", "int", "void", "char", "bool", "long", "short", "double", "float", "unsigned", "signed", "decltype", "nullptr", "wchar_t", "char16_t", "char32_t", "char8_t", "enum", "union", "typename", "template"};
        if (s.empty() || isdigit((unsigned char)s[0]) || s == "::" || s == "{" || s == "}" || s == ";")
            return false;
        for (auto k : kw)
            if (s == k)
                return false;
        return true;
    };
    std::vector<size_t> depth_stack; // number of names each open brace pushed
    std::vector<std::string> stack;
    size_t i = 0;
    while (i < toks.size()) {
        if (toks[i] == "namespace") {
            size_t pushed = 0;
            ++i;
            while (true) {
                if (i >= toks.size() || !is_ident(toks[i])) {
                    why = "namespace without a proper name" + (i < toks.size() ? " ('" + toks[i] + "')" : std::string());
                    return false;
                }
                stack.push_back(toks[i++]);
                ++pushed;
                if (i < toks.size() && toks[i] == "::") {
                    ++i;
                    continue;
                }
                break;
            }
            if (i >= toks.size() || toks[i] != "{") {
                why = "namespace name not followed by '{'";
                return false;
            }
            ++i;
            depth_stack.push_back(pushed);
        } else if (toks[i] == "class" || toks[i] == "struct") {
            if (i + 2 >= toks.size() + 0 || !is_ident(toks[i + 1]) || toks[i + 2] != ";") {
                why = "malformed class declaration" + (i + 1 < toks.size() ? " ('" + toks[i + 1] + "')" : std::string());
                return false;
            }
            std::string q;
            for (auto& s : stack)
                q += s + "::";
            declared.insert(q + toks[i + 1]);
            i += 3;
        } else if (toks[i] == "}") {
            if (depth_stack.empty()) {
                why = "closing brace without open namespace";
                return false;
            }
            for (size_t k = 0; k < depth_stack.back(); ++k)
                stack.pop_back();
            depth_stack.pop_back();
            ++i;
        } else {
            why = "unexpected token '" + toks[i] + "'";
            return false;
        }
    }
    if (!depth_stack.empty()) {
        why = std::to_string(depth_stack.size()) + " namespace(s) left open";
        return false;
    }
    return true;
}

// ---- type descriptions ------------------------------------------------------

const char* const FUNDAMENTAL[] = {"void", "bool", "char", "int", "float", "double", "short", "long", "unsigned int", "unsigned long", "long long",
                                   "signed char", "unsigned char", "long double", "wchar_t", "char16_t", "char32_t", "unsigned short", "char8_t", "unsigned __int128"};
const char* const STD_PLAIN[] = {"std::string", "std::size_t", "std::ostream", "std::type_info", "yorel::yomm2::policy::debug", "yorel::yomm2::default_policy", "std::nullptr_t"};
const char* const STD_TEMPL[] = {"std::shared_ptr", "std::vector", "std::basic_ostream", "std::char_traits", "std::unique_ptr", "yorel::yomm2::virtual_", "yorel::yomm2::virtual_ptr", "std::pair", "std::function"};
const char* const USER_TEMPL[] = {"my::vec", "Matrix", "ns1::holder", "tpl"};

struct TypeGen {
    Rng& rng;
    std::vector<std::string> classes; // user class names to draw from
    std::set<std::string> used;       // classes that must be kept

    std::string cls() {
        std::string c = classes[rng.below(classes.size())];
        used.insert(c);
        return c;
    }
    std::string type(int depth) {
        std::string t;
        int k = (int)rng.below(depth > 3 ? 4 : 9);
        switch (k) {
        case 0:
        case 1:
            t = cls();
            break;
        case 2:
            t = FUNDAMENTAL[rng.below(sizeof(FUNDAMENTAL) / sizeof(*FUNDAMENTAL))];
            break;
        case 3:
            t = STD_PLAIN[rng.below(sizeof(STD_PLAIN) / sizeof(*STD_PLAIN))];
            break;
        case 4:
        case 5: {
            bool user = rng.chance(1, 3);
            t = user ? USER_TEMPL[rng.below(sizeof(USER_TEMPL) / sizeof(*USER_TEMPL))] : STD_TEMPL[rng.below(sizeof(STD_TEMPL) / sizeof(*STD_TEMPL))];
            t += rng.chance(1, 4) ? " <" : "<";
            int n = rng.range(1, 3);
            for (int i = 0; i < n; ++i) {
                t += (i ? ", " : "");
                if (rng.chance(1, 6)) {
                    // a non-type argument, as the demangler prints it
                    static const char* const LIT[] = {"", "ul", "u", "l", "ll", "ull", "", ""};
                    int kind = (int)rng.below(10);
                    if (kind == 0)
                        t += rng.chance(1, 2) ? "true" : "false";
                    else if (kind == 1)
                        t += "(char)" + std::to_string(32 + rng.below(90));
                    else if (kind == 2)
                        t += "-" + std::to_string(1 + rng.below(50)) + (rng.chance(1, 2) ? "l" : "");
                    else
                        t += std::to_string(rng.below(100000)) + LIT[rng.below(8)];
                } else {
                    t += type(depth + 1);
                }
            }
            t += t.back() == '>' ? " >" : ">";
            break;
        }
        case 6: { // function type
            t = type(depth + 1) + " (";
            int n = rng.range(0, 3);
            for (int i = 0; i < n; ++i)
                t += (i ? ", " : "") + type(depth + 1);
            t += ")";
            if (rng.chance(1, 4))
                t += " noexcept";
            return t;
        }
        case 7: // pointer to function
            t = type(depth + 1) + " (*)(" + type(depth + 1) + ")";
            if (rng.chance(1, 4))
                t += " noexcept";
            return t;
        default:
            t = "decltype(nullptr)";
            break;
        }
        if (rng.chance(1, 3))
            t += " const";
        if (rng.chance(1, 8))
            t += " volatile";
        int suf = (int)rng.below(6);
        if (suf == 0)
            t += "&";
        else if (suf == 1)
            t += "*";
        else if (suf == 2)
            t += "&&";
        else if (suf == 3)
            t += " const*";
        return t;
    }
    // what the demangler prints for a method class
    std::string method_name() {
        std::string key = "YoMm2_S_" + std::string(IDENTS[rng.below(NIDENT)]);
        used.insert(key);
        std::string t = "yorel::yomm2::method<" + key + ", " + type(1) + " (";
        int n = rng.range(1, 4);
        for (int i = 0; i < n; ++i) {
            t += (i ? ", " : "");
            if (rng.chance(1, 2))
                t += "yorel::yomm2::virtual_<" + cls() + (rng.chance(1, 2) ? "&" : " const&") + ">";
            else
                t += type(1);
        }
        t += "), yorel::yomm2::policy::" + std::string(rng.chance(1, 2) ? "debug" : "release") + ">";
        return t;
    }
};

} // namespace

int prop_fwd(Run& run) {
    std::string emitdir = run.outdir + "/emit";
    // the convenience overloads (template, type_info, whole policy) must declare what the
    // string overload declares for the demangled name
    {
        run.cur_case = -1;
        auto v = glue_fwd_wrapper_routes();
        for (size_t i = 0; i + 3 < v.size(); i += 4) {
            run.evaluations++;
            run.count("wrapper-routes");
            if (v[i + 1] != v[i + 3] || v[i + 2] != v[i + 3])
                run.violation("C19:overloads-disagree", "{\"type\":" + jstr(v[i]) + ",\"template_overload\":" + jstr(v[i + 1]) + ",\"type_info_overload\":" + jstr(v[i + 2]) + ",\"string_overload\":" + jstr(v[i + 3]) + "}");
            std::multiset<std::string> declared;
            std::string why;
            if (!parse_decls(v[i + 3], declared, why))
                run.violation("C19:not-well-formed:real-types", "{\"type\":" + jstr(v[i]) + ",\"written\":" + jstr(v[i + 3]) + ",\"why\":" + jstr(why) + "}");
        }
        Rng rng(run.seed, 99991);
        for (auto w : worlds()) {
            if (w->caps().deferred || !run.want_policy(w->name()))
                continue;
            GenProfile prof;
            prof.max_methods = 6;
            Registry r = gen_registry(rng, prof, 0, pick_flavour(rng, w->caps()));
            w->hard_reset();
            w->materialize(r);
            std::string a = w->forward_declarations_of_methods(true), b = w->forward_declarations_of_methods(false);
            run.evaluations++;
            run.count("policy-wide-routes");
            std::multiset<std::string> declared;
            std::string why;
            if (a != b)
                run.violation("C19:add_forward_declarations-differs-from-per-method", "{\"world\":" + jstr(w->name()) + ",\"policy_wide\":" + jstr(a) + ",\"per_method\":" + jstr(b) + "}");
            else if (!parse_decls(a, declared, why) || !declared.count(std::string("vf::") + w->name()) || !declared.count("vf::Node"))
                run.violation("C19:policy-wide-declarations-wrong", "{\"world\":" + jstr(w->name()) + ",\"written\":" + jstr(a) + ",\"expected\":\"well formed, declaring at least vf::Node and the policy class\"}");
            w->soft_reset();
        }
        if (!run.violations.empty())
            return 1;
    }
    for (long cs = 0; cs < run.cases; ++cs) {
        if (run.only_case >= 0 && cs != run.only_case)
            continue;
        run.cur_case = cs;
        Rng rng(run.seed, (uint64_t)cs);
        std::vector<std::string> inputs;
        std::set<std::string> expected;
        std::string mode;
        Scope root;
        if (cs % 2 == 0) {
            mode = "names";
            gen_names(rng, root, rng.range(1, 12), expected);
            for (auto& n : expected)
                inputs.push_back(n);
            rng.shuffle(inputs);
            if (rng.chance(1, 4) && !inputs.empty())
                inputs.push_back(inputs[0]); // requested twice, declared once
        } else {
            mode = "type-descriptions";
            std::set<std::string> pool;
            gen_names(rng, root, rng.range(1, 8), pool);
            if (pool.empty())
                pool.insert("Lonely"); // (the structure generator can come back empty-handed)
            TypeGen tg{rng, std::vector<std::string>(pool.begin(), pool.end()), {}};
            int n = rng.range(1, 4);
            for (int i = 0; i < n; ++i)
                inputs.push_back(rng.chance(1, 2) ? tg.method_name() : tg.type(0));
            expected = tg.used;
            // a method key may clash with a namespace of the generated structure only in
            // name, never in scope (keys are global and start with YoMm2_S_)
        }
        std::string ij = "[";
        for (size_t i = 0; i < inputs.size(); ++i)
            ij += (i ? "," : "") + jstr(inputs[i]);
        ij += "]";
        set_current_case(run, "generator", "{\"mode\":" + jstr(mode) + ",\"inputs\":" + ij + "}");
        set_stage("write_forward_declarations");
        std::string text = glue_forward_declarations(inputs);
        set_stage("monitor");
        run.evaluations++;
        run.count("mode." + mode);
        std::multiset<std::string> declared;
        std::string why;
        auto fail = [&](const std::string& key, const std::string& e, const std::string& o) {
            return run.violation("C19:" + key, "{\"mode\":" + jstr(mode) + ",\"inputs\":" + ij + ",\"written\":" + jstr(text) + ",\"expected\":" + jstr(e) + ",\"observed\":" + jstr(o) + "}");
        };
        bool stop = false;
        if (!parse_decls(text, declared, why)) {
            stop = fail("not-well-formed:" + mode, "balanced namespace blocks containing class declarations", why);
        } else {
            std::multiset<std::string> want(expected.begin(), expected.end());
            if (declared != want) {
                std::string extra, missing, twice;
                for (auto& d : declared)
                    if (!want.count(d))
                        extra += d + " ";
                    else if (declared.count(d) > 1)
                        twice += d + " ";
                for (auto& d : want)
                    if (!declared.count(d))
                        missing += d + " ";
                std::string kind = !missing.empty() ? "class-missing-or-in-wrong-namespace" : !extra.empty() ? "extra-declaration" : "declared-twice";
                std::string tag;
                if (!extra.empty()) {
                    std::string first = extra.substr(0, extra.find(' '));
                    static const char* kw[] = {"const", "volatile", "wchar_t", "char16_t", "char32_t", "char8_t", "decltype", "nullptr", "__int128", "signed", "unsigned"};
                    for (auto k : kw)
                        if (first == k)
                            tag = std::string(":") + k;
                }
                stop = fail(kind + ":" + mode + tag, "exactly: " + [&] { std::string s; for (auto& d : want) s += d + " "; return s; }(),
                            (missing.empty() ? "" : "missing: " + missing) + (extra.empty() ? "" : " extra: " + extra) + (twice.empty() ? "" : " twice: " + twice));
            }
        }
        size_t maxdepth = 0;
        for (auto& n : expected)
            maxdepth = std::max<size_t>(maxdepth, std::count(n.begin(), n.end(), ':') / 2);
        if (expected.size() >= 2 && maxdepth >= 1)
            run.distinct.insert(std::hash<std::string>()(ij));
        if (run.samples.size() < 3 && expected.size() >= 3 && expected.size() <= 6 && maxdepth >= 2)
            run.sample("{\"mode\":" + jstr(mode) + ",\"inputs\":" + ij + ",\"written\":" + jstr(text) + "}");
        if (cs < 6 && run.only_case < 0 && !expected.empty()) {
            std::ofstream f(emitdir + "/fwd-s" + std::to_string(run.seed) + "-c" + std::to_string(cs) + ".inc");
            f << text;
        }
        if (stop)
            return 1;
    }
    return run.violations.empty() ? 0 : 1;
}

} // namespace vf

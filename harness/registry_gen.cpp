// Registry generators, id assignment, presentations, dumps.
#include "common.hpp"

#include <typeinfo>

namespace vf {

type_id g_static_id[2] = {0, 0};
thread_local std::vector<Event> t_events;

// signature: upper case = virtual parameter kind, lower case = non-virtual
//  R virtual_<Node&>          C virtual_<const Node&>   X virtual_<Node&&>
//  P virtual_<Node*>          S virtual_<shared_ptr<Node>>
//  T virtual_<const shared_ptr<Node>&>
//  Q virtual_ptr<Node,P>      K const virtual_ptr<Node,P>&
//  H virtual_shared_ptr<Node,P>   J const virtual_shared_ptr<Node,P>&
//  i int   d double   s const std::string&
const ShapeInfo g_shapes[] = {
    {"R", 1, 1},      {"Ci", 1, 2},     {"iP", 1, 2},    {"sQd", 1, 3},
    {"K", 1, 1},      {"Hi", 1, 2},     {"RC", 2, 2},    {"RiP", 2, 3},
    {"QK", 2, 2},     {"iST", 2, 3},    {"XdJ", 2, 3},   {"RPC", 3, 3},
    {"dQsKi", 2, 5},  {"RiCdP", 3, 5},  {"QQQ", 3, 3},   {"RCPQ", 4, 4},
    {"iRKTHs", 4, 6},
};
const int g_nshapes = sizeof(g_shapes) / sizeof(g_shapes[0]);

// ---------------------------------------------------------------------------

static void add_edge(Registry& r, int d, int b) {
    if (d == b)
        return;
    auto& v = r.bases[d];
    if (std::find(v.begin(), v.end(), b) == v.end())
        v.push_back(b);
}

static int new_class(Registry& r) {
    r.bases.emplace_back();
    return r.n++;
}

// all generators create classes in topological order (bases first); a random
// relabelling is applied afterwards.
static void g_chain(Rng& rng, Registry& r, int n) {
    int prev = -1;
    for (int i = 0; i < n; ++i) {
        int c = new_class(r);
        if (prev >= 0)
            add_edge(r, c, prev);
        prev = c;
    }
}

static void g_tree(Rng& rng, Registry& r, int n, int fan) {
    int first = r.n;
    for (int i = 0; i < n; ++i) {
        int c = new_class(r);
        if (i > 0) {
            int lo = std::max(first, c - fan * 2);
            add_edge(r, c, lo + (int)rng.below(c - lo));
        }
    }
}

static void g_diamonds(Rng& rng, Registry& r, int k) {
    int top = new_class(r);
    for (int i = 0; i < k; ++i) {
        int w = rng.range(2, 3);
        std::vector<int> mids;
        for (int j = 0; j < w; ++j) {
            int m = new_class(r);
            add_edge(r, m, top);
            mids.push_back(m);
        }
        int bot = new_class(r);
        for (int m : mids)
            add_edge(r, bot, m);
        top = bot;
    }
}

static void g_ladder(Rng& rng, Registry& r, int k) {
    int a = new_class(r), b = new_class(r);
    for (int i = 0; i < k; ++i) {
        int a2 = new_class(r), b2 = new_class(r);
        add_edge(r, a2, a);
        add_edge(r, b2, b);
        if (rng.chance(1, 2))
            add_edge(r, a2, b);
        else
            add_edge(r, b2, a);
        a = a2;
        b = b2;
    }
}

static void g_crown(Rng& rng, Registry& r, int k) {
    std::vector<int> tops;
    for (int i = 0; i < k; ++i)
        tops.push_back(new_class(r));
    for (int i = 0; i < k; ++i) {
        int c = new_class(r);
        for (int j = 0; j < k; ++j)
            if (j != i || k < 3)
                add_edge(r, c, tops[j]);
    }
}

static void g_product(Rng& rng, Registry& r, int a, int b) {
    std::vector<std::vector<int>> id(a, std::vector<int>(b));
    for (int i = 0; i < a; ++i)
        for (int j = 0; j < b; ++j) {
            int c = new_class(r);
            id[i][j] = c;
            if (i > 0)
                add_edge(r, c, id[i - 1][j]);
            if (j > 0)
                add_edge(r, c, id[i][j - 1]);
        }
}

static void g_manybases(Rng& rng, Registry& r, int k) {
    std::vector<int> roots;
    for (int i = 0; i < k; ++i) {
        int c = new_class(r);
        if (i > 0 && rng.chance(1, 4))
            add_edge(r, c, roots[rng.below(roots.size())]);
        roots.push_back(c);
    }
    int j = new_class(r);
    for (int c : roots)
        add_edge(r, j, c);
    if (rng.chance(1, 2)) {
        int d = new_class(r);
        add_edge(r, d, j);
    }
}

static void g_dag(Rng& rng, Registry& r, int n, int density_pct) {
    int first = r.n;
    for (int i = 0; i < n; ++i) {
        int c = new_class(r);
        for (int b = first; b < c; ++b)
            if ((int)rng.below(100) < density_pct)
                add_edge(r, c, b);
    }
}

static void g_tree_join(Rng& rng, Registry& r, int n) {
    int first = r.n;
    g_tree(rng, r, n, 2);
    // one multiple-inheritance join somewhere
    int j = new_class(r);
    int a = first + (int)rng.below(n), b = first + (int)rng.below(n);
    add_edge(r, j, a);
    add_edge(r, j, b);
    if (rng.chance(1, 2)) {
        int d = new_class(r);
        add_edge(r, d, j);
    }
}

// remove redundant (transitively implied) direct edges so that `bases` is the
// true *direct* base relation; keeps the reachability relation unchanged.
static void reduce_edges(Registry& r) {
    int n = r.n;
    std::vector<std::vector<char>> reach(n, std::vector<char>(n, 0));
    // classes are topologically ordered here (bases have smaller indexes)
    for (int c = 0; c < n; ++c)
        for (int b : r.bases[c]) {
            reach[c][b] = 1;
            for (int k = 0; k < n; ++k)
                if (reach[b][k])
                    reach[c][k] = 1;
        }
    for (int c = 0; c < n; ++c) {
        std::vector<int> keep;
        for (int b : r.bases[c]) {
            bool implied = false;
            for (int b2 : r.bases[c])
                if (b2 != b && reach[b2][b])
                    implied = true;
            if (!implied)
                keep.push_back(b);
        }
        r.bases[c] = keep;
    }
}

static void relabel(Rng& rng, Registry& r) {
    std::vector<int> perm(r.n);
    for (int i = 0; i < r.n; ++i)
        perm[i] = i;
    rng.shuffle(perm);
    std::vector<std::vector<int>> nb(r.n);
    for (int c = 0; c < r.n; ++c)
        for (int b : r.bases[c])
            nb[perm[c]].push_back(perm[b]);
    r.bases = nb;
}

void gen_graph(Rng& rng, const GenProfile& p, Registry& r) {
    r.n = 0;
    r.bases.clear();
    int target = rng.range(p.min_classes, p.max_classes);
    static const char* names[] = {"chain",  "tree",      "diamonds", "ladder", "crown",
                                  "product", "manybases", "dag",      "treejoin", "union"};
    int kind;
    if (p.big) {
        static const int k[] = {1, 7, 8, 8};
        kind = k[rng.below(4)];
    } else if (p.lattice_bias) {
        static const int k[] = {2, 3, 4, 5, 6, 7, 7, 8, 8, 9};
        kind = k[rng.below(10)];
    } else {
        kind = (int)rng.below(10);
    }
    r.gen = names[kind];
    auto one = [&](int kind, int budget) {
        budget = std::max(budget, 1);
        switch (kind) {
        case 0:
            g_chain(rng, r, std::min(budget, 8));
            break;
        case 1:
            g_tree(rng, r, budget, rng.range(1, 4));
            break;
        case 2:
            g_diamonds(rng, r, std::max(1, std::min(4, budget / 4)));
            break;
        case 3:
            g_ladder(rng, r, std::max(1, budget / 2 - 1));
            break;
        case 4:
            g_crown(rng, r, std::max(2, std::min(4, budget / 2)));
            break;
        case 5: {
            int a = rng.range(2, 4);
            g_product(rng, r, a, std::max(2, std::min(5, budget / a)));
            break;
        }
        case 6:
            g_manybases(rng, r, std::max(2, std::min(8, budget - 1)));
            break;
        case 7:
            g_dag(rng, r, budget, p.big ? rng.range(2, 5) : rng.range(10, 60));
            break;
        case 8:
            g_tree_join(rng, r, std::max(2, budget - 2));
            break;
        }
    };
    if (kind == 9) {
        int parts = rng.range(2, 3);
        for (int i = 0; i < parts; ++i)
            one((int)rng.below(9), target / parts);
    } else {
        one(kind, target);
    }
    // cap
    while (r.n > MAXC) {
        --r.n;
        r.bases.pop_back();
    }
    for (auto& b : r.bases)
        b.erase(std::remove_if(b.begin(), b.end(), [&](int x) { return x >= r.n; }), b.end());
    reduce_edges(r);
    relabel(rng, r);
    r.abstract_.assign(r.n, 0);
    if (p.abstract_flags) {
        int mode = (int)rng.below(5); // 0 none, 1 all, 2 roots, 3 random, 4 inner
        for (int c = 0; c < r.n; ++c) {
            switch (mode) {
            case 1:
                r.abstract_[c] = 1;
                break;
            case 2:
                r.abstract_[c] = r.bases[c].empty();
                break;
            case 3:
                r.abstract_[c] = rng.chance(1, 3);
                break;
            case 4:
                r.abstract_[c] = !r.bases[c].empty() && rng.chance(1, 2);
                break;
            }
        }
    }
}

void gen_methods(Rng& rng, const GenProfile& p, Registry& r, const Oracle& o) {
    r.methods.clear();
    int nm = rng.range(1, p.max_methods);
    std::set<std::pair<int, int>> used;
    std::vector<int> allowed;
    for (int s = 0; s < g_nshapes; ++s)
        if ((p.shape_mask >> s & 1) && g_shapes[s].arity <= p.max_arity)
            allowed.push_back(s);
    for (int k = 0; k < nm; ++k) {
        Meth m;
        int tries = 0;
        do {
            m.shape = allowed[rng.below(allowed.size())];
            m.inst = (int)rng.below(NINST);
            if ((p.big || p.many_defs) && k < 2) { // the two method objects that have MAXDEF_BIG bodies
                m.shape = k == 0 ? 0 : 6;
                m.inst = 0;
            }
        } while (used.count({m.shape, m.inst}) && ++tries < 50);
        if (used.count({m.shape, m.inst}))
            break;
        used.insert({m.shape, m.inst});
        int ar = g_shapes[m.shape].arity;
        // cap the dispatch space: product of acceptable classes
        for (int tries2 = 0; tries2 < 20; ++tries2) {
            m.vp.clear();
            double prod = 1;
            for (int i = 0; i < ar; ++i) {
                int c = (int)rng.below(r.n);
                // bias toward roots for wide coverage (big registries: almost always, so that one
                // v-table gets more than 64 slots)
                if (rng.chance(p.big ? 9 : 1, p.big ? 10 : 2))
                    while (!r.bases[c].empty())
                        c = r.bases[c][rng.below(r.bases[c].size())];
                m.vp.push_back(c);
                int cnt = 0;
                for (int d = 0; d < r.n; ++d)
                    cnt += o.derives(d, c);
                prod *= cnt;
            }
            if (prod <= 20000)
                break;
        }
        int nd = (int)rng.below(p.max_defs + 1);
        int style = (int)rng.below(4);
        if ((p.big || p.many_defs) && max_defs_of(m.shape, m.inst) == MAXDEF_BIG)
            nd = rng.range(MAXDEF_BIG - 8, MAXDEF_BIG); // more than 64 definitions: masks wider than a word
        for (int d = 0; d < nd && d < max_defs_of(m.shape, m.inst); ++d) {
            Def def;
            for (int i = 0; i < ar; ++i) {
                auto acc = o.acceptable(m, i);
                int c;
                if (style == 0 && d == 0)
                    c = m.vp[i]; // catch-all
                else if (style == 1)
                    c = rng.chance(1, 3) ? m.vp[i] : acc[rng.below(acc.size())];
                else
                    c = acc[rng.below(acc.size())];
                def.vp.push_back(c);
            }
            if (d > 0 && rng.chance(1, 40))
                def = m.defs[rng.below(m.defs.size())]; // exact duplicate (rare)
            m.defs.push_back(def);
        }
        m.def_live.assign(m.defs.size(), true);
        for (size_t d = 0; d < m.defs.size(); ++d)
            m.def_order.push_back((int)d);
        rng.shuffle(m.def_order);
        r.methods.push_back(m);
    }
    r.method_order.clear();
    for (size_t i = 0; i < r.methods.size(); ++i)
        r.method_order.push_back((int)i);
    rng.shuffle(r.method_order);
}

const char* presentation_name(int kind) {
    static const char* n[] = {"complete+self", "direct-only", "direct+some-indirect",
                              "duplicated",    "split-records", "mixed"};
    return n[kind];
}

void gen_presentation(Rng& rng, Registry& r, const Oracle& o, int kind) {
    r.records.clear();
    r.pres = presentation_name(kind);
    for (int c = 0; c < r.n; ++c) {
        std::vector<int> trans;
        for (int b = 0; b < r.n; ++b)
            if (o.proper(c, b))
                trans.push_back(b);
        std::vector<int> indirect;
        for (int b : trans)
            if (std::find(r.bases[c].begin(), r.bases[c].end(), b) == r.bases[c].end())
                indirect.push_back(b);
        int k = kind == 5 ? (int)rng.below(5) : kind;
        int naliases = (int)r.ids[c].size();
        std::vector<Record> recs;
        auto mk = [&](std::vector<int> listed) {
            Record rec;
            rec.cls = c;
            rec.alias = 0;
            rec.listed = listed;
            recs.push_back(rec);
        };
        switch (k) {
        case 0: {
            std::vector<int> l = trans;
            l.push_back(c);
            rng.shuffle(l);
            mk(l);
            break;
        }
        case 1: {
            std::vector<int> l = r.bases[c];
            rng.shuffle(l);
            mk(l);
            break;
        }
        case 2:
        case 3: {
            std::vector<int> l = r.bases[c];
            for (int b : indirect)
                if (rng.chance(1, 2))
                    l.push_back(b);
            if (rng.chance(1, 2))
                l.push_back(c);
            if (k == 3) {
                size_t n0 = l.size();
                for (size_t i = 0; i < n0; ++i)
                    if (rng.chance(1, 2))
                        l.push_back(l[i]);
                if (rng.chance(1, 3))
                    l.push_back(c);
            }
            rng.shuffle(l);
            mk(l);
            break;
        }
        case 4: {
            int nrec = rng.range(2, 3);
            std::vector<std::vector<int>> ls(nrec);
            for (int b : r.bases[c]) {
                ls[rng.below(nrec)].push_back(b);
                if (rng.chance(1, 4))
                    ls[rng.below(nrec)].push_back(b);
            }
            for (int b : indirect)
                if (rng.chance(1, 3))
                    ls[rng.below(nrec)].push_back(b);
            for (auto& l : ls) {
                if (rng.chance(1, 3))
                    l.push_back(c);
                rng.shuffle(l);
                mk(l);
            }
            break;
        }
        }
        // every alias id needs at least one record carrying it
        for (int a = 1; a < naliases; ++a) {
            Record rec = recs[rng.below(recs.size())];
            rec.alias = a;
            if (rng.chance(1, 2))
                rec.listed.clear();
            recs.push_back(rec);
        }
        if (naliases > 1)
            for (auto& rec : recs)
                if (rng.chance(1, 3) && &rec != &recs[0])
                    rec.alias = (int)rng.below(naliases);
        // make sure alias 0..k-1 all still present
        for (int a = 0; a < naliases; ++a) {
            bool present = false;
            for (auto& rec : recs)
                present |= rec.alias == a;
            if (!present) {
                Record rec;
                rec.cls = c;
                rec.alias = a;
                recs.push_back(rec);
            }
        }
        for (auto& rec : recs) {
            rec.listed_alias.clear();
            for (int b : rec.listed)
                rec.listed_alias.push_back((int)rng.below(r.ids[b].size()));
            r.records.push_back(rec);
        }
    }
    rng.shuffle(r.records);
    while ((int)r.records.size() > MAXREC)
        r.records.pop_back(); // cannot happen: <= 4 records per class
}

// 128 distinct real type_info objects
template<int... I>
static void fill_tag_ids(type_id* out, std::integer_sequence<int, I...>) {
    ((out[I] = reinterpret_cast<type_id>(&typeid(Tag<I>))), ...);
}

static type_id* tag_ids() {
    static type_id ids[128];
    static bool done = false;
    if (!done) {
        fill_tag_ids(ids, std::make_integer_sequence<int, 128>());
        done = true;
    }
    return ids;
}

const char* idflavour_name(int f) {
    static const char* n[] = {"small-int", "typeid-pointer", "stride", "high-bits", "random64", "low-bit-aliases", "small-int-aliases"};
    return n[f];
}

void assign_ids(Rng& rng, Registry& r, int flavour, int aliases) {
    r.ids.assign(r.n, {});
    r.idflavour = idflavour_name(flavour);
    std::vector<int> perm;
    for (int i = 0; i < 128; ++i)
        perm.push_back(i);
    rng.shuffle(perm);
    uint64_t base = rng.next() >> 8;
    int j = rng.range(0, 12);
    std::set<type_id> seen;
    for (int c = 0; c < r.n; ++c) {
        int na = aliases > 1 ? rng.range(1, aliases) : 1;
        for (int a = 0; a < na; ++a) {
            type_id id = 0;
            switch (flavour) {
            case 0: {
                // dense small integers (a permutation with a little slack)
                static thread_local std::vector<int> order;
                if (c == 0 && a == 0) {
                    order.clear();
                    for (int i = 0; i < r.n * MAXALIAS + 8; ++i)
                        order.push_back(i);
                    rng.shuffle(order);
                }
                id = (type_id)order[c * MAXALIAS + a];
                break;
            }
            case 1:
                id = tag_ids()[perm[(c + a * MAXC) % 128]];
                break;
            case 2:
                id = base + ((uint64_t)(c * MAXALIAS + a) << j);
                break;
            case 3:
                id = ((uint64_t)(c * MAXALIAS + a + 1) << 48) | (base & 0xffff);
                break;
            case 4:
                do {
                    id = rng.next();
                } while (id == yorel::yomm2::invalid_type);
                break;
            case 5:
                id = ((base + (uint64_t)c * 977) << 2) | (uint64_t)a;
                break;
            case 6: // small integers: (a permutation of the classes) * 4 + alias
                id = ((uint64_t)perm[c % 128] << 2) | (uint64_t)a;
                break;
            }
            if (seen.count(id)) { // keep ids unique per class
                --a;
                base += 1;
                continue;
            }
            seen.insert(id);
            r.ids[c].push_back(id);
        }
    }
}

Registry gen_registry(Rng& rng, const GenProfile& p, int pres_kind, int id_flavour) {
    Registry r;
    gen_graph(rng, p, r);
    Oracle o(r);
    gen_methods(rng, p, r, o);
    assign_ids(rng, r, id_flavour, 1);
    gen_presentation(rng, r, o, pres_kind);
    r.static_class[0] = (int)rng.below(r.n);
    r.static_class[1] = (int)rng.below(r.n);
    return r;
}

uint64_t registry_hash(const Registry& r) {
    uint64_t h = 1469598103934665603ull;
    auto mix = [&](uint64_t v) {
        h ^= v + 0x9e3779b97f4a7c15ull + (h << 6) + (h >> 2);
        h *= 1099511628211ull;
    };
    mix(r.n);
    for (int c = 0; c < r.n; ++c) {
        auto b = r.bases[c];
        std::sort(b.begin(), b.end());
        mix(1000 + b.size());
        for (int x : b)
            mix(x);
        mix(r.abstract_[c]);
    }
    for (auto& m : r.methods) {
        mix(5000 + m.shape);
        for (int c : m.vp)
            mix(c);
        for (auto& d : m.defs) {
            mix(7000);
            for (int c : d.vp)
                mix(c);
        }
    }
    return h;
}

void enum_tuples(
    Rng& rng, const Registry& r, const Oracle& o, const Meth& m, int max_tuples,
    std::vector<std::vector<int>>& out) {
    out.clear();
    int ar = (int)m.vp.size();
    std::vector<std::vector<int>> acc(ar);
    double prod = 1;
    for (int i = 0; i < ar; ++i) {
        for (int c : o.acceptable(m, i))
            if (!r.abstract_[c])
                acc[i].push_back(c);
        prod *= acc[i].size();
    }
    if (prod == 0)
        return;
    if (prod <= max_tuples) {
        std::vector<int> idx(ar, 0);
        while (true) {
            std::vector<int> t(ar);
            for (int i = 0; i < ar; ++i)
                t[i] = acc[i][idx[i]];
            out.push_back(t);
            int k = 0;
            while (k < ar && ++idx[k] == (int)acc[k].size())
                idx[k++] = 0;
            if (k == ar)
                break;
        }
    } else {
        for (int k = 0; k < max_tuples; ++k) {
            std::vector<int> t(ar);
            for (int i = 0; i < ar; ++i)
                t[i] = acc[i][rng.below(acc[i].size())];
            out.push_back(t);
        }
    }
}

std::string jstr(const std::string& s) {
    std::string o = "\"";
    for (char c : s) {
        if (c == '"' || c == '\\') {
            o += '\\';
            o += c;
        } else if (c == '\n')
            o += "\\n";
        else if ((unsigned char)c < 32)
            o += ' ';
        else
            o += c;
    }
    return o + "\"";
}

static std::string jlist(const std::vector<int>& v) {
    std::string s = "[";
    for (size_t i = 0; i < v.size(); ++i)
        s += (i ? "," : "") + std::to_string(v[i]);
    return s + "]";
}

std::string dump_registry(const Registry& r) {
    std::ostringstream os;
    os << "{\"gen\":" << jstr(r.gen) << ",\"presentation\":" << jstr(r.pres) << ",\"id_flavour\":" << jstr(r.idflavour)
       << ",\"static_class\":[" << r.static_class[0] << "," << r.static_class[1] << "],\"classes\":[";
    for (int c = 0; c < r.n; ++c) {
        os << (c ? "," : "") << "{\"c\":" << c << ",\"bases\":" << jlist(r.bases[c])
           << ",\"abstract\":" << (r.abstract_[c] ? "true" : "false") << ",\"ids\":[";
        for (size_t a = 0; c < (int)r.ids.size() && a < r.ids[c].size(); ++a)
            os << (a ? "," : "") << "\"" << std::hex << "0x" << r.ids[c][a] << std::dec << "\"";
        os << "]}";
    }
    os << "],\"records\":[";
    for (size_t i = 0; i < r.records.size(); ++i) {
        auto& rec = r.records[i];
        os << (i ? "," : "") << "{\"class\":" << rec.cls << ",\"alias\":" << rec.alias
           << ",\"listed\":" << jlist(rec.listed) << "}";
    }
    os << "],\"methods\":[";
    for (size_t i = 0; i < r.methods.size(); ++i) {
        auto& m = r.methods[i];
        os << (i ? "," : "") << "{\"shape\":" << jstr(g_shapes[m.shape].sig) << ",\"inst\":" << m.inst
           << ",\"vp\":" << jlist(m.vp) << ",\"defs\":[";
        for (size_t d = 0; d < m.defs.size(); ++d)
            os << (d ? "," : "") << (m.def_live[d] ? "" : "\"dead\",") << jlist(m.defs[d].vp);
        os << "],\"def_order\":" << jlist(m.def_order) << "}";
    }
    os << "],\"method_order\":" << jlist(r.method_order) << "}";
    return os.str();
}

} // namespace vf

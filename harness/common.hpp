// Shared, policy-independent definitions of the tier-A/C harness.
#ifndef VF_COMMON_HPP
#define VF_COMMON_HPP

#include <algorithm>
#include <cstdint>
#include <cstdio>
#include <cstdlib>
#include <cstring>
#include <functional>
#include <map>
#include <memory>
#include <set>
#include <sstream>
#include <string>
#include <vector>

#include <yorel/yomm2/core.hpp>

namespace vf {

using yorel::yomm2::type_id;

// ---------------------------------------------------------------------------
// deterministic PRNG (splitmix64); one instance per (seed, case)

struct Rng {
    uint64_t s;
    explicit Rng(uint64_t seed = 1) : s(seed) {
    }
    Rng(uint64_t seed, uint64_t stream) : s(seed * 0x9E3779B97F4A7C15ull + stream * 0xD1B54A32D192ED03ull + 0x1234567) {
        next();
        next();
    }
    uint64_t next() {
        uint64_t z = (s += 0x9E3779B97F4A7C15ull);
        z = (z ^ (z >> 30)) * 0xBF58476D1CE4E5B9ull;
        z = (z ^ (z >> 27)) * 0x94D049BB133111EBull;
        return z ^ (z >> 31);
    }
    // uniform in [0, n)
    uint64_t below(uint64_t n) {
        return n ? next() % n : 0;
    }
    int range(int lo, int hi) { // inclusive
        return lo + (int)below((uint64_t)(hi - lo + 1));
    }
    bool chance(int num, int den) {
        return (int)below((uint64_t)den) < num;
    }
    template<class T>
    void shuffle(std::vector<T>& v) {
        for (size_t i = v.size(); i > 1; --i) {
            std::swap(v[i - 1], v[below(i)]);
        }
    }
};

// ---------------------------------------------------------------------------
// limits

constexpr int MAXC = 96;      // classes per registry
constexpr int MAXALIAS = 3;   // type ids per class
constexpr int MAXDEF = 12;    // definitions per method (ordinary methods)
constexpr int MAXDEF_BIG = 72; // ... for the two "big" method objects: more than 64 definitions (masks wider than one word)
constexpr int MAXAR = 4;      // virtual parameters per method
constexpr int MAXPARAM = 6;   // parameters per method
constexpr int MAXREC = 512;   // class registration records
constexpr int NINST = 3;      // method instances per shape

// shapes "R" (index 0) and "RC" (index 6), instance 0, have MAXDEF_BIG definition bodies
inline int max_defs_of(int shape, int inst) {
    return inst == 0 && (shape == 0 || shape == 6) ? MAXDEF_BIG : MAXDEF;
}

// ---------------------------------------------------------------------------
// carrier classes: one C++ class plays any number of run-time classes through
// a field-based custom RTTI (documented in the custom RTTI tutorial).

struct Pad {
    virtual ~Pad() {
    }
    long pad = 0x5a5a;
};

extern type_id g_static_id[2]; // [0]: static_type<Node>(), [1]: <NodeD>()

struct Node {
    Node() : dyn_id(g_static_id[0]) {
    }
    explicit Node(type_id id) : dyn_id(id) {
    }
    virtual ~Node() {
    }
    type_id dyn_id;
    int cls = -1;
};

// NodeD's Node sub-object is at a non-zero offset: converting
// virtual_ptr<NodeD> to virtual_ptr<Node> must adjust the address.
struct NodeD : Pad, Node {
    NodeD() : Node(g_static_id[1]) {
    }
    explicit NodeD(type_id id) : Node(id) {
    }
    long extra = 0x7e7e;
};

template<int I>
struct Tag {};

// ---------------------------------------------------------------------------
// events logged by definition bodies

struct Event {
    int muid; // shape * NINST + inst
    int def;
    int nargs;
    uint64_t obs[MAXPARAM];
};

extern thread_local std::vector<Event> t_events;

// ---------------------------------------------------------------------------
// abstract registry

struct Record {
    int cls;
    int alias;               // which id of the class this record carries
    std::vector<int> listed; // listed "bases" (class indexes; may include cls)
    std::vector<int> listed_alias;
};

struct Def {
    std::vector<int> vp;
};

struct Meth {
    int shape, inst;
    std::vector<int> vp;
    std::vector<Def> defs;
    std::vector<int> def_order; // registration order of definitions
    std::vector<bool> def_live; // for histories (default all live)
    bool attached = true;       // for histories: the method is registered in the policy
};

struct Registry {
    int n = 0;
    std::vector<std::vector<int>> bases; // true direct bases
    std::vector<char> abstract_;
    std::vector<std::vector<type_id>> ids;
    std::vector<Record> records; // presentation, in registration order
    std::vector<Meth> methods;
    std::vector<int> method_order;
    int static_class[2] = {0, 0}; // classes whose first id is static_type<Node/NodeD>
    std::string gen;              // generator name (for histograms)
    std::string pres;             // presentation name
    std::string idflavour;
};

// ---------------------------------------------------------------------------
// the reference oracle: written from the documentation and the property
// statements, shares nothing with compiler.hpp.

struct Sel {
    enum Kind { DEF, NODEF, AMBIG } kind;
    int def; // when DEF
    bool operator==(const Sel& o) const {
        return kind == o.kind && (kind != DEF || def == o.def);
    }
    bool operator!=(const Sel& o) const {
        return !(*this == o);
    }
    std::string str() const {
        if (kind == DEF)
            return "def " + std::to_string(def);
        return kind == NODEF ? "no_definition" : "ambiguous";
    }
};

struct Oracle {
    int n;
    std::vector<std::vector<char>> der; // der[d][b]: d is b or derives from b

    explicit Oracle(const Registry& r) : n(r.n), der(r.n, std::vector<char>(r.n, 0)) {
        for (int c = 0; c < n; ++c) {
            der[c][c] = 1;
            for (int b : r.bases[c])
                der[c][b] = 1;
        }
        for (int k = 0; k < n; ++k)
            for (int i = 0; i < n; ++i)
                if (der[i][k])
                    for (int j = 0; j < n; ++j)
                        if (der[k][j])
                            der[i][j] = 1;
    }

    bool derives(int d, int b) const {
        return der[d][b];
    }
    bool proper(int d, int b) const {
        return d != b && der[d][b];
    }

    bool applicable(const Def& d, const std::vector<int>& tuple) const {
        for (size_t i = 0; i < tuple.size(); ++i)
            if (!derives(tuple[i], d.vp[i]))
                return false;
        return true;
    }

    // a more specific than b: at no position a proper base, at one position
    // at least a proper derived class
    bool more_specific(const Def& a, const Def& b) const {
        bool some = false;
        for (size_t i = 0; i < a.vp.size(); ++i) {
            if (proper(b.vp[i], a.vp[i]))
                return false;
            if (proper(a.vp[i], b.vp[i]))
                some = true;
        }
        return some;
    }

    Sel select_among(const Meth& m, const std::vector<int>& cand) const {
        if (cand.empty())
            return {Sel::NODEF, -1};
        for (int d : cand) {
            bool all = true;
            for (int e : cand)
                if (e != d && !more_specific(m.defs[d], m.defs[e])) {
                    all = false;
                    break;
                }
            if (all)
                return {Sel::DEF, d};
        }
        return {Sel::AMBIG, -1};
    }

    Sel select(const Meth& m, const std::vector<int>& tuple) const {
        std::vector<int> cand;
        for (size_t d = 0; d < m.defs.size(); ++d)
            if (m.def_live[d] && applicable(m.defs[d], tuple))
                cand.push_back((int)d);
        return select_among(m, cand);
    }

    // strictly more general than d: every position base-or-equal, not all equal
    bool strictly_more_general(const Def& e, const Def& d) const {
        bool some = false;
        for (size_t i = 0; i < d.vp.size(); ++i) {
            if (!derives(d.vp[i], e.vp[i]))
                return false;
            if (d.vp[i] != e.vp[i])
                some = true;
        }
        return some;
    }

    Sel next(const Meth& m, int d) const {
        std::vector<int> cand;
        for (size_t e = 0; e < m.defs.size(); ++e)
            if ((int)e != d && m.def_live[e] && strictly_more_general(m.defs[e], m.defs[d]))
                cand.push_back((int)e);
        return select_among(m, cand);
    }

    // classes acceptable at virtual position p of method m
    std::vector<int> acceptable(const Meth& m, int p) const {
        std::vector<int> r;
        for (int c = 0; c < n; ++c)
            if (derives(c, m.vp[p]))
                r.push_back(c);
        return r;
    }
};

// ---------------------------------------------------------------------------
// JSON-ish dump of a registry (witness files, evidence samples)

std::string dump_registry(const Registry& r);
std::string jstr(const std::string& s);

// ---------------------------------------------------------------------------
// generators (registry_gen.cpp)

struct GenProfile {
    int min_classes = 2, max_classes = 14;
    int max_methods = 4;
    int max_defs = 6;
    int max_arity = 4;
    bool lattice_bias = false; // favour multiple inheritance
    bool abstract_flags = false;
    bool complete_presentation = false; // every record lists all transitive bases + self
    bool big = false;                   // > 64 classes / slots / definitions (bitsets wider than a word)
    bool many_defs = false;             // ordinary graph, but the two big method objects get > 64 definitions
    int max_tuples = 4096;
    uint32_t shape_mask = 0xffffffffu; // allowed shapes
};

struct ShapeInfo {
    const char* sig; // one char per parameter, upper case = virtual
    int arity;
    int nparams;
};

extern const ShapeInfo g_shapes[];
extern const int g_nshapes;

void gen_graph(Rng& rng, const GenProfile& p, Registry& r);
void gen_methods(Rng& rng, const GenProfile& p, Registry& r, const Oracle& o);
// presentation kinds: 0 complete+self, 1 direct only, 2 direct + random
// indirect, 3 duplicated entries, 4 split over several records, 5 mix
void gen_presentation(Rng& rng, Registry& r, const Oracle& o, int kind);
const char* presentation_name(int kind);
constexpr int NPRES = 6;
// id flavours: 0 small ints, 1 typeid pointers, 2 strides, 3 high bits,
// 4 random 64 bit, 5 low bits (alias friendly: id = base*4 + alias)
void assign_ids(Rng& rng, Registry& r, int flavour, int aliases);
constexpr int NIDFLAVOURS = 7; // 6: small integers with low-bit aliases
const char* idflavour_name(int f);
Registry gen_registry(Rng& rng, const GenProfile& p, int pres_kind, int id_flavour);
uint64_t registry_hash(const Registry& r);

// enumerate / sample legal tuples of concrete classes
void enum_tuples(
    Rng& rng, const Registry& r, const Oracle& o, const Meth& m, int max_tuples,
    std::vector<std::vector<int>>& out);

} // namespace vf

#endif

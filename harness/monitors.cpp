#include "monitors.hpp"

#include <csignal>
#include <fcntl.h>
#include <sys/resource.h>
#include <sys/wait.h>
#include <unistd.h>

namespace vf {

static std::string jlist(const std::vector<int>& v) {
    std::string s = "[";
    for (size_t i = 0; i < v.size(); ++i)
        s += (i ? "," : "") + std::to_string(v[i]);
    return s + "]";
}

static const char* route_name(int r) {
    static const char* n[] = {"plain", "final", "conv-copy", "conv-move", "copy", "move", "from-derived-object", "held-across-update"};
    return r >= 0 && r < RT_COUNT ? n[r] : "?";
}

std::string call_json(const Registry& r, int m, const CallSpec& cs) {
    auto& me = r.methods[m];
    std::string s = "{\"method\":" + std::to_string(m) + ",\"shape\":" + jstr(g_shapes[me.shape].sig) + ",\"tuple\":[";
    for (size_t i = 0; i < me.vp.size(); ++i)
        s += (i ? "," : "") + std::to_string(cs.tuple[i]);
    s += "],\"alias\":[";
    for (size_t i = 0; i < me.vp.size(); ++i)
        s += (i ? "," : "") + std::to_string(cs.alias[i]);
    s += "],\"routes\":[";
    for (size_t i = 0; i < me.vp.size(); ++i)
        s += (i ? "," : "") + jstr(route_name(cs.route[i]));
    s += "]}";
    return s;
}

std::string witness_json(const CaseCtx& c, const std::string& what, const std::string& call, const std::string& expected,
                         const std::string& observed) {
    std::string s = "{\"world\":" + jstr(c.w.name()) + ",\"what\":" + jstr(what);
    if (!c.label.empty())
        s += ",\"label\":" + jstr(c.label);
    if (!call.empty())
        s += ",\"call\":" + call;
    s += ",\"expected\":" + jstr(expected) + ",\"observed\":" + jstr(observed) + ",\"registry\":" + dump_registry(c.r) + "}";
    return s;
}

void choose_routes(Rng& rng, const Registry& r, const Meth& m, CallSpec& cs, bool all_routes) {
    const char* sig = g_shapes[m.shape].sig;
    int vi = 0;
    for (int i = 0; sig[i]; ++i) {
        char k = sig[i];
        if (!(k >= 'A' && k <= 'Z'))
            continue;
        int route = RT_PLAIN;
        if (all_routes) {
            bool vp = k == 'Q' || k == 'K' || k == 'H' || k == 'J';
            if (!vp) {
                route = rng.chance(1, 3) ? RT_FROM_D : RT_PLAIN;
            } else {
                static const int opts[] = {RT_PLAIN, RT_PLAIN, RT_FROM_D, RT_COPY, RT_MOVE, RT_CONV_COPY, RT_CONV_MOVE, RT_FINAL};
                route = opts[rng.below(8)];
                if (route == RT_FINAL && (cs.tuple[vi] != r.static_class[0] || cs.alias[vi] != 0))
                    route = RT_PLAIN;
                if (route == RT_FROM_D && (k == 'H' || k == 'J'))
                    route = RT_PLAIN;
            }
        }
        cs.route[vi++] = route;
    }
}

bool do_update(CaseCtx& c, UpdateResult& u, const char* prop) {
    set_stage("update");
    u = c.w.update();
    set_stage("monitor");
    if (!u.ok) {
        if (u.err.kind == Outcome::HASH_ERR) {
            c.run.inconclusive["hash_search_error"]++;
            return false;
        }
        c.run.violation(std::string(prop) + ":update-error:" + c.w.name(),
                        witness_json(c, "update reported an error on a legal registry", "", "update succeeds", u.err.str()));
        return false;
    }
    return true;
}

std::string outcome_class(const Registry& r, int m, const Outcome& out) {
    if (out.kind == Outcome::RAN) {
        if (out.events.size() == 1)
            return "def " + std::to_string(out.events[0].def);
        return "ran/" + std::to_string(out.events.size()) + "-events";
    }
    if (out.kind == Outcome::RES_ERR)
        return out.status == 1 ? "no_definition" : out.status == 2 ? "ambiguous" : "status?";
    return out.str();
}

static bool check_error_info(CaseCtx& c, int m, const CallSpec& cs, const Sel& exp, const Outcome& out, const char* mode) {
    auto& me = c.r.methods[m];
    auto fail = [&](const char* key, const std::string& expected) {
        return c.run.violation(std::string("C02:") + key + ":" + mode,
                               witness_json(c, std::string("unresolvable call, handler mode ") + mode, call_json(c.r, m, cs), expected, out.str()));
    };
    if (out.kind == Outcome::RAN)
        return fail("definition-ran", exp.str() + " reported, no definition runs");
    if (out.kind != Outcome::RES_ERR)
        return fail("not-a-resolution-error", "resolution_error " + exp.str());
    if (!out.events.empty())
        return fail("definition-ran-before-error", "no definition event");
    int want = exp.kind == Sel::NODEF ? 1 : 2;
    if (out.status != want)
        return fail("wrong-status", exp.str());
    if (out.arity != me.vp.size())
        return fail("wrong-arity", "arity " + std::to_string(me.vp.size()));
    for (size_t i = 0; i < me.vp.size(); ++i)
        if (out.types[i] != c.r.ids[cs.tuple[i]][cs.alias[i]]) {
            std::string e = "types=[";
            for (size_t k = 0; k < me.vp.size(); ++k)
                e += hex(c.r.ids[cs.tuple[k]][cs.alias[k]]) + " ";
            return fail("wrong-types", e + "] (dynamic ids of the virtual arguments, in order)");
        }
    return false;
}

// key naming the parameter kind and construction route of the virtual_ptr
// argument that carried a foreign v-table pointer
static std::string bad_vptr_key(const Registry& r, int m, const CallSpec& cs, const Outcome& out) {
    const char* sig = g_shapes[r.methods[m].shape].sig;
    int vi = 0;
    for (int i = 0; sig[i] && i < (int)out.arity; ++i)
        if (sig[i] >= 'A' && sig[i] <= 'Z')
            ++vi;
    return std::string(out.status == -3 ? "copying-a-virtual_ptr-changed-its-source:" : "bad-vptr-in-virtual_ptr:") + sig[out.arity] + ":" + route_name(cs.route[vi]);
}

static bool check_ran(CaseCtx& c, int m, const CallSpec& cs, const Sel& exp, const Outcome& out, const char* prop) {
    auto& me = c.r.methods[m];
    int uid = me.shape * NINST + me.inst;
    auto fail = [&](const char* key, const std::string& expected) {
        return c.run.violation(std::string(prop) + ":" + key, witness_json(c, "call", call_json(c.r, m, cs), expected, out.str()));
    };
    if (out.kind == Outcome::OTHER_ERR && (out.status == -2 || out.status == -3))
        return fail(bad_vptr_key(c.r, m, cs, out).c_str(), exp.str());
    if (out.kind != Outcome::RAN)
        return fail("error-instead-of-definition", exp.str());
    if (out.events.size() != 1)
        return fail("event-count", "exactly one definition body runs: " + exp.str());
    auto& e = out.events[0];
    if (e.muid != uid)
        return fail("foreign-method-body", exp.str() + " of method uid " + std::to_string(uid));
    if (e.def != exp.def)
        return fail("wrong-definition", exp.str());
    if (out.ret != uid * 100 + exp.def)
        return fail("return-value", "ret=" + std::to_string(uid * 100 + exp.def));
    int np = g_shapes[me.shape].nparams;
    for (int i = 0; i < np; ++i)
        if (e.obs[i] != out.expect_obs[i])
            return fail("argument-mismatch", "parameter " + std::to_string(i) + " observed " + hex(e.obs[i]) + " passed " + hex(out.expect_obs[i]));
    return false;
}

bool monitor_calls(CaseCtx& c, const UpdateResult& u, unsigned flags, int max_tuples) {
    const char* prop = c.run.prop.c_str();
    Caps caps = c.w.caps();
    for (size_t m = 0; m < c.r.methods.size(); ++m) {
        auto& me = c.r.methods[m];
        if (!me.attached)
            continue;
        std::vector<std::vector<int>> tuples;
        enum_tuples(c.rng, c.r, c.o, me, max_tuples, tuples);
        MethodView mv = c.w.method(c.r, (int)m);
        std::vector<int> good_tuple; // some resolvable tuple for follow-up calls
        for (auto& t : tuples)
            if (c.o.select(me, t).kind == Sel::DEF) {
                good_tuple = t;
                break;
            }
        // a third of the methods: the deprecated call_error hook is installed ONCE and stays for
        // all the calls of the method (successive errors must all reach it)
        HandlerMode mode = H_THROW;
        if ((flags & MON_ERRORS) && caps.call_error && c.rng.chance(1, 3)) {
            mode = H_CALL_ERROR;
            c.w.set_handler(mode);
        }
        struct Restore {
            IWorld& w;
            HandlerMode& mode;
            ~Restore() {
                if (mode != H_THROW)
                    w.set_handler(H_THROW);
            }
        } restore{c.w, mode};
        for (auto& t : tuples) {
            CallSpec cs{};
            for (size_t i = 0; i < t.size(); ++i) {
                cs.tuple[i] = t[i];
                cs.alias[i] = (int)c.rng.below(c.r.ids[t[i]].size());
            }
            cs.nvseed = c.rng.next();
            choose_routes(c.rng, c.r, me, cs, true);
            Sel exp = c.o.select(me, t);
            set_stage("call");
            Outcome out = c.w.call(c.r, (int)m, cs);
            set_stage("monitor");
            c.run.evaluations++;
            c.run.events += (long)out.events.size();
            if (exp.kind == Sel::DEF) {
                if (flags & MON_SELECT) {
                    if (check_ran(c, (int)m, cs, exp, out, prop))
                        return true;
                    Outcome ro;
                    set_stage("resolve");
                    void* pf = c.w.resolve(c.r, (int)m, cs, ro);
                    set_stage("monitor");
                    if (ro.kind != Outcome::RAN || pf != mv.body[exp.def]) {
                        if (c.run.violation(std::string(prop) + ":resolve-mismatch",
                                            witness_json(c, "method::resolve", call_json(c.r, (int)m, cs), "pointer to " + exp.str(), ro.kind != Outcome::RAN ? ro.str() : "another pointer")))
                            return true;
                    }
                    c.run.count("calls.def");
                }
            } else {
                c.run.count(exp.kind == Sel::NODEF ? "calls.no_definition" : "calls.ambiguous");
                if ((flags & MON_SELECT) && out.kind == Outcome::RAN) {
                    if (c.run.violation(std::string(prop) + ":definition-ran-when-none-is-most-specific",
                                        witness_json(c, "call", call_json(c.r, (int)m, cs), exp.str(), out.str())))
                        return true;
                }
                if ((flags & MON_SELECT) && out.kind == Outcome::OTHER_ERR && (out.status == -2 || out.status == -3)) {
                    if (c.run.violation(std::string(prop) + ":" + bad_vptr_key(c.r, (int)m, cs, out),
                                        witness_json(c, "call", call_json(c.r, (int)m, cs), exp.str(), out.str())))
                        return true;
                }
                if (flags & MON_ERRORS) {
                    const char* mname = caps.throws ? "throw_error" : mode == H_CALL_ERROR ? "call_error" : "vectored";
                    c.run.count(std::string("errors.") + mname);
                    if (mode == H_CALL_ERROR && !out.via_call_error && out.kind == Outcome::RES_ERR) {
                        if (c.run.violation("C02:call-error-hook-bypassed", witness_json(c, "deprecated call_error hook installed", call_json(c.r, (int)m, cs), "delivered through call_error", out.str())))
                            return true;
                    }
                    if (check_error_info(c, (int)m, cs, exp, out, mname))
                        return true;
                    // later calls still dispatch correctly
                    if (!good_tuple.empty() && c.rng.chance(1, 4)) {
                        CallSpec cs2{};
                        for (size_t i = 0; i < good_tuple.size(); ++i) {
                            cs2.tuple[i] = good_tuple[i];
                            cs2.alias[i] = 0;
                        }
                        cs2.nvseed = c.rng.next();
                        choose_routes(c.rng, c.r, me, cs2, false);
                        Sel exp2 = c.o.select(me, good_tuple);
                        Outcome out2 = c.w.call(c.r, (int)m, cs2);
                        c.run.count("errors.followup-calls");
                        if (check_ran(c, (int)m, cs2, exp2, out2, "C02:later-call"))
                            return true;
                    }
                }
            }
        }
    }
    return false;
}

bool monitor_next(CaseCtx& c, const char* prop) {
    for (size_t m = 0; m < c.r.methods.size(); ++m) {
        auto& me = c.r.methods[m];
        if (!me.attached)
            continue;
        MethodView mv = c.w.method(c.r, (int)m);
        int uid = me.shape * NINST + me.inst;
        for (size_t d = 0; d < me.defs.size(); ++d) {
            if (!me.def_live[d])
                continue;
            Sel exp = c.o.next(me, (int)d);
            void* want = exp.kind == Sel::DEF ? mv.body[exp.def] : exp.kind == Sel::NODEF ? mv.info->not_implemented : mv.info->ambiguous;
            void* got = c.w.next_of(uid, (int)d);
            c.run.evaluations++;
            c.run.count(std::string("next.") + (exp.kind == Sel::DEF ? "def" : exp.kind == Sel::NODEF ? "not_implemented" : "ambiguous"));
            if (got != want) {
                std::string obs = "another pointer";
                if (got == reinterpret_cast<void*>(0xdeadbeef))
                    obs = "not recomputed by this update";
                else if (got == mv.info->not_implemented)
                    obs = "not_implemented";
                else if (got == mv.info->ambiguous)
                    obs = "ambiguous";
                else
                    for (int e = 0; e < MAXDEF_BIG; ++e)
                        if (got == mv.body[e])
                            obs = "def " + std::to_string(e);
                if (c.run.violation(std::string(prop) + ":next:" + (exp.kind == Sel::DEF ? "def" : exp.str()) + "-expected",
                                    witness_json(c, "next of definition " + std::to_string(d) + " of method " + std::to_string(m), "", exp.str(), obs)))
                    return true;
                return false;
            }
        }
    }
    return false;
}

bool monitor_walk(CaseCtx& c, const UpdateResult& u, const char* prop) {
    auto& comp = *u.compiler;
    auto& dd = c.w.dispatch_data();
    const std::uintptr_t* dd0 = dd.data();
    const std::uintptr_t* dd1 = dd0 + dd.size();
    std::map<type_id, int> id2cls;
    for (int k = 0; k < c.r.n; ++k)
        for (auto id : c.r.ids[k])
            id2cls[id] = k;
    std::vector<const generic_compiler::class_*> cc(c.r.n, nullptr);
    for (auto& cls : comp.classes)
        if (!cls.type_ids.empty() && id2cls.count(cls.type_ids[0]))
            cc[id2cls[cls.type_ids[0]]] = &cls;
    std::vector<int> m2j(c.r.methods.size(), -1);
    std::vector<MethodView> mvs;
    for (size_t m = 0; m < c.r.methods.size(); ++m) {
        mvs.push_back(c.w.method(c.r, (int)m));
        for (size_t j = 0; j < comp.methods.size(); ++j)
            if (comp.methods[j].info == mvs.back().info)
                m2j[m] = (int)j;
    }
    auto fail = [&](const std::string& key, const std::string& what, const std::string& expected, const std::string& observed) {
        return c.run.violation(std::string(prop) + ":" + key, witness_json(c, what, "", expected, observed));
    };
    // per class: slot uniqueness, extents, cell ownership
    for (int k = 0; k < c.r.n; ++k) {
        if (!cc[k])
            return fail("class-missing-in-compiler", "class " + std::to_string(k), "present", "absent");
        const std::uintptr_t* vptr = *c.w.static_vptr_slot(k);
        std::map<size_t, std::pair<int, int>> used;
        for (size_t m = 0; m < c.r.methods.size(); ++m) {
            auto& me = c.r.methods[m];
            if (!me.attached)
                continue;
            for (size_t p = 0; p < me.vp.size(); ++p) {
                if (!c.o.derives(k, me.vp[p]))
                    continue;
                size_t slot = mvs[m].slots_strides[p];
                c.run.evaluations++;
                auto it = used.find(slot);
                if (it != used.end())
                    return fail("shared-slot", "class " + std::to_string(k) + " slot " + std::to_string(slot),
                                "one (method, parameter) pair per v-table cell of a class",
                                "(m" + std::to_string(it->second.first) + ",p" + std::to_string(it->second.second) + ") and (m" + std::to_string(m) + ",p" + std::to_string(p) + ")");
                used[slot] = {(int)m, (int)p};
                if (slot < cc[k]->first_slot || slot >= cc[k]->first_slot + cc[k]->vtbl.size())
                    return fail("slot-outside-vtable", "class " + std::to_string(k) + " m" + std::to_string(m) + " p" + std::to_string(p),
                                "slot within [" + std::to_string(cc[k]->first_slot) + "," + std::to_string(cc[k]->first_slot + cc[k]->vtbl.size()) + ")", std::to_string(slot));
                auto& entry = cc[k]->vtbl[slot - cc[k]->first_slot];
                if ((int)entry.method_index != m2j[m] || entry.vp_index != p)
                    return fail("cell-written-for-another-pair", "class " + std::to_string(k) + " slot " + std::to_string(slot),
                                "cell of (m" + std::to_string(m) + ",p" + std::to_string(p) + ")",
                                "cell of (compiler method " + std::to_string(entry.method_index) + ",p" + std::to_string(entry.vp_index) + ")");
                const std::uintptr_t* cell = vptr + slot;
                if (cell < dd0 || cell >= dd1)
                    return fail("cell-outside-dispatch-data", "class " + std::to_string(k) + " slot " + std::to_string(slot), "inside dispatch_data", "outside");
            }
        }
        // every id of the class reaches this v-table through the policy's lookup
        if (!c.r.abstract_[k] || true) {
            for (auto id : c.r.ids[k]) {
                set_stage("lookup_vptr");
                const std::uintptr_t* got = nullptr;
                try {
                    got = c.w.lookup_vptr(id);
                } catch (...) {
                    set_stage("monitor");
                    return fail("lookup-failed", "class " + std::to_string(k) + " id " + hex(id), "v-table pointer", "error reported");
                }
                set_stage("monitor");
                if (got != vptr)
                    return fail("lookup-gives-foreign-vtable", "class " + std::to_string(k) + " id " + hex(id), "the class's own v-table", "another pointer");
            }
        }
    }
    // per tuple: composite address arithmetic of multi-methods
    for (size_t m = 0; m < c.r.methods.size(); ++m) {
        auto& me = c.r.methods[m];
        if (!me.attached)
            continue;
        if (m2j[m] < 0)
            return fail("method-missing-in-compiler", "method " + std::to_string(m), "present", "absent");
        auto& cm = comp.methods[m2j[m]];
        size_t ar = me.vp.size();
        std::vector<std::vector<int>> tuples;
        enum_tuples(c.rng, c.r, c.o, me, 512, tuples);
        for (auto& t : tuples) {
            c.run.evaluations++;
            const std::uintptr_t* vptr0 = *c.w.static_vptr_slot(t[0]);
            std::uintptr_t cell0 = vptr0[mvs[m].slots_strides[0]];
            if (ar == 1) {
                auto& entry = cc[t[0]]->vtbl[mvs[m].slots_strides[0] - cc[t[0]]->first_slot];
                if (entry.group_index >= cm.dispatch_table.size() || cell0 != cm.dispatch_table[entry.group_index]->pf)
                    return fail("uni-cell-not-written-by-update", "m" + std::to_string(m) + " class " + std::to_string(t[0]), "function pointer of its group", "another value");
                continue;
            }
            const std::uintptr_t* tb0 = cm.gv_dispatch_table;
            const std::uintptr_t* tb1 = tb0 + cm.dispatch_table.size();
            const std::uintptr_t* p = reinterpret_cast<const std::uintptr_t*>(cell0);
            if (tb0 < dd0 || tb1 > dd1 || p < tb0 || p >= tb1)
                return fail("multi-first-cell-outside-table", "m" + std::to_string(m) + " tuple " + jlist(t), "pointer into the method's dispatch table", "outside");
            for (size_t i = 1; i < ar; ++i) {
                const std::uintptr_t* vp = *c.w.static_vptr_slot(t[i]);
                std::uintptr_t g = vp[mvs[m].slots_strides[i]];
                std::uintptr_t stride = mvs[m].slots_strides[ar + i - 1];
                if (g > dd.size() || stride > dd.size() || p + g * stride < tb0 || p + g * stride >= tb1)
                    return fail("multi-walk-leaves-table", "m" + std::to_string(m) + " tuple " + jlist(t) + " at virtual position " + std::to_string(i),
                                "address inside the method's dispatch table", "group " + std::to_string(g) + " stride " + std::to_string(stride));
                p += g * stride;
            }
            if (*p != cm.dispatch_table[p - tb0]->pf)
                return fail("multi-cell-not-written-by-update", "m" + std::to_string(m) + " tuple " + jlist(t), "function pointer stored by update", "another value");
        }
    }
    return false;
}

bool monitor_report(CaseCtx& c, const UpdateResult& u) {
    auto& comp = *u.compiler;
    bool any_ni = false, any_amb = false, any_cni = false, any_camb = false;
    size_t cells = 0;
    for (size_t m = 0; m < c.r.methods.size(); ++m) {
        auto& me = c.r.methods[m];
        if (!me.attached)
            continue;
        MethodView mv = c.w.method(c.r, (int)m);
        const generic_compiler::method* cm = nullptr;
        for (auto& x : comp.methods)
            if (x.info == mv.info)
                cm = &x;
        size_t ar = me.vp.size();
        std::vector<std::vector<int>> acc(ar);
        for (size_t i = 0; i < ar; ++i)
            acc[i] = c.o.acceptable(me, (int)i);
        bool ni = false, amb = false, cni = false, camb = false;
        std::vector<size_t> idx(ar, 0);
        std::vector<int> t(ar);
        while (true) {
            bool concrete = true;
            for (size_t i = 0; i < ar; ++i) {
                t[i] = acc[i][idx[i]];
                concrete = concrete && !c.r.abstract_[t[i]];
            }
            Sel s = c.o.select(me, t);
            if (s.kind == Sel::NODEF) {
                ni = true;
                cni = cni || concrete;
            } else if (s.kind == Sel::AMBIG) {
                amb = true;
                camb = camb || concrete;
            }
            size_t k = 0;
            while (k < ar && ++idx[k] == acc[k].size())
                idx[k++] = 0;
            if (k == ar)
                break;
        }
        c.run.evaluations++;
        auto fail = [&](const char* key, bool expected, size_t observed) {
            return c.run.violation(std::string("C17:method-report:") + key,
                                   witness_json(c, std::string("per-method report of method ") + std::to_string(m) + " field " + key, "", expected ? "non-zero" : "zero", std::to_string(observed)));
        };
        if (cm) {
            auto& rp = cm->report;
            if ((rp.not_implemented != 0) != ni && fail("not_implemented", ni, rp.not_implemented))
                return true;
            if ((rp.ambiguous != 0) != amb && fail("ambiguous", amb, rp.ambiguous))
                return true;
            if ((rp.concrete_not_implemented != 0) != cni && fail("concrete_not_implemented", cni, rp.concrete_not_implemented))
                return true;
            if ((rp.concrete_ambiguous != 0) != camb && fail("concrete_ambiguous", camb, rp.concrete_ambiguous))
                return true;
            if (ar > 1)
                cells += cm->dispatch_table.size();
        }
        any_ni |= ni;
        any_amb |= amb;
        any_cni |= cni;
        any_camb |= camb;
        c.run.count(std::string("report.") + (ni ? "gap" : "nogap") + (amb ? "+ambiguity" : ""));
        if (cni != ni || camb != amb)
            c.run.count("report.concrete-differs");
    }
    auto fail = [&](const char* key, const std::string& expected, size_t observed) {
        return c.run.violation(std::string("C17:report:") + key, witness_json(c, std::string("update report field ") + key, "", expected, std::to_string(observed)));
    };
    auto& rp = u.report;
    if ((rp.not_implemented != 0) != any_ni && fail("not_implemented", any_ni ? "non-zero" : "zero", rp.not_implemented))
        return true;
    if ((rp.ambiguous != 0) != any_amb && fail("ambiguous", any_amb ? "non-zero" : "zero", rp.ambiguous))
        return true;
    if ((rp.concrete_not_implemented != 0) != any_cni && fail("concrete_not_implemented", any_cni ? "non-zero" : "zero", rp.concrete_not_implemented))
        return true;
    if ((rp.concrete_ambiguous != 0) != any_camb && fail("concrete_ambiguous", any_camb ? "non-zero" : "zero", rp.concrete_ambiguous))
        return true;
    if (rp.cells != cells && fail("cells", std::to_string(cells) + " (sum of multi-method dispatch table sizes)", rp.cells))
        return true;
    return false;
}

// handler returns (or library default handler): the process must abort, and
// no definition may run first.  One forked child per case.
bool monitor_aborts(CaseCtx& c, int max_cases) {
    Caps caps = c.w.caps();
    if (caps.throws)
        return false;
    int done = 0;
    for (size_t m = 0; m < c.r.methods.size() && done < max_cases; ++m) {
        auto& me = c.r.methods[m];
        std::vector<std::vector<int>> tuples;
        enum_tuples(c.rng, c.r, c.o, me, 64, tuples);
        for (auto& t : tuples) {
            Sel exp = c.o.select(me, t);
            if (exp.kind == Sel::DEF)
                continue;
            if (done >= max_cases)
                break;
            ++done;
            CallSpec cs{};
            for (size_t i = 0; i < t.size(); ++i) {
                cs.tuple[i] = t[i];
                cs.alias[i] = 0;
            }
            cs.nvseed = c.rng.next();
            choose_routes(c.rng, c.r, me, cs, false);
            bool use_default = c.rng.chance(1, 3);
            auto* page = shared_page();
            memset((void*)page, 0, sizeof *page);
            fflush(stdout);
            fflush(stderr);
            pid_t pid = fork();
            if (pid == 0) {
                signal(SIGABRT, SIG_DFL);
                signal(SIGSEGV, SIG_DFL);
                struct rlimit rl = {0, 0};
                setrlimit(RLIMIT_CORE, &rl);
                int fd = open("/dev/null", O_WRONLY);
                if (fd >= 0)
                    dup2(fd, 2);
                c.w.set_handler(use_default ? H_DEFAULT : H_RETURN);
                page->stage = 1;
                Outcome out = c.w.call(c.r, (int)m, cs);
                page->stage = 99; // the call came back
                page->events = (int)out.events.size();
                _exit(0);
            }
            int st = 0;
            waitpid(pid, &st, 0);
            c.run.evaluations++;
            c.run.count(use_default ? "aborts.default-handler" : "aborts.returning-handler");
            std::string obs;
            bool bad = false;
            if (!(WIFSIGNALED(st) && WTERMSIG(st) == SIGABRT)) {
                bad = true;
                obs = WIFSIGNALED(st) ? "killed by signal " + std::to_string(WTERMSIG(st)) : "exited with status " + std::to_string(WEXITSTATUS(st)) + (page->stage == 99 ? " (call returned to the caller)" : "");
            }
            if (bad) {
                if (c.run.violation(std::string("C02:no-abort-after-handler-returned:") + (use_default ? "default" : "returning"),
                                    witness_json(c, "handler returns / default handler", call_json(c.r, (int)m, cs), "process aborts (SIGABRT)", obs)))
                    return true;
                continue;
            }
            if (!use_default) {
                Outcome out;
                out.kind = page->kind;
                out.status = page->status;
                out.arity = page->arity;
                for (int i = 0; i < 16; ++i)
                    out.types[i] = page->types[i];
                if (page->handler_calls != 1) {
                    if (c.run.violation("C02:handler-call-count", witness_json(c, "returning handler", call_json(c.r, (int)m, cs), "handler called once", std::to_string(page->handler_calls))))
                        return true;
                    continue;
                }
                if (page->events != 0) {
                    if (c.run.violation("C02:definition-ran-before-error:returning", witness_json(c, "returning handler", call_json(c.r, (int)m, cs), "no definition event", std::to_string(page->events))))
                        return true;
                    continue;
                }
                if (check_error_info(c, (int)m, cs, exp, out, "returning"))
                    return true;
            }
        }
    }
    return false;
}

void behaviour(CaseCtx& c, uint64_t seed, int max_tuples, int alias_round, bool with_next, Behaviour& out) {
    std::map<type_id, int> id2cls;
    for (int k = 0; k < c.r.n; ++k)
        for (auto id : c.r.ids[k])
            id2cls[id] = k;
    for (size_t m = 0; m < c.r.methods.size(); ++m) {
        auto& me = c.r.methods[m];
        if (!me.attached)
            continue;
        Rng trng(seed, m);
        std::vector<std::vector<int>> tuples;
        enum_tuples(trng, c.r, c.o, me, max_tuples, tuples);
        MethodView mv = c.w.method(c.r, (int)m);
        int uid = me.shape * NINST + me.inst;
        for (auto& t : tuples) {
            CallSpec cs{};
            for (size_t i = 0; i < t.size(); ++i) {
                cs.tuple[i] = t[i];
                cs.alias[i] = alias_round % (int)c.r.ids[t[i]].size();
            }
            cs.nvseed = trng.next();
            choose_routes(trng, c.r, me, cs, true);
            set_stage("call");
            Outcome o = c.w.call(c.r, (int)m, cs);
            set_stage("monitor");
            ++out.calls;
            c.run.evaluations++;
            c.run.events += (long)o.events.size();
            std::string row = "m" + std::to_string(m) + " " + jlist(t) + " -> ";
            if (o.kind == Outcome::RAN && o.events.size() == 1 && o.events[0].muid == uid) {
                row += "def " + std::to_string(o.events[0].def);
                int np = g_shapes[me.shape].nparams;
                for (int i = 0; i < np; ++i)
                    if (o.events[0].obs[i] != o.expect_obs[i])
                        row += " ARG" + std::to_string(i) + "-MISMATCH";
            } else if (o.kind == Outcome::RES_ERR) {
                row += o.status == 1 ? "no_definition" : o.status == 2 ? "ambiguous" : "status?";
                row += " arity=" + std::to_string(o.arity) + " types=";
                for (size_t i = 0; i < o.arity && i < 16; ++i)
                    row += (id2cls.count(o.types[i]) ? "c" + std::to_string(id2cls[o.types[i]]) : std::string("?")) + ",";
            } else {
                row += o.str();
            }
            out.rows.push_back(row);
        }
        if (with_next)
            for (size_t d = 0; d < me.defs.size(); ++d) {
                if (!me.def_live[d])
                    continue;
                void* got = c.w.next_of(uid, (int)d);
                std::string obs = "other";
                if (got == mv.info->not_implemented)
                    obs = "not_implemented";
                else if (got == mv.info->ambiguous)
                    obs = "ambiguous";
                else
                    for (int e = 0; e < MAXDEF_BIG; ++e)
                        if (got == mv.body[e])
                            obs = "def " + std::to_string(e);
                out.rows.push_back("m" + std::to_string(m) + " next(def " + std::to_string(d) + ") -> " + obs);
                c.run.evaluations++;
            }
    }
}

void oracle_behaviour(const Registry& r, const Oracle& o, uint64_t seed, int max_tuples, bool with_next, Behaviour& out) {
    for (size_t m = 0; m < r.methods.size(); ++m) {
        auto& me = r.methods[m];
        if (!me.attached)
            continue;
        Rng trng(seed, m);
        std::vector<std::vector<int>> tuples;
        enum_tuples(trng, r, o, me, max_tuples, tuples);
        for (auto& t : tuples) {
            Sel s = o.select(me, t);
            std::string row = "m" + std::to_string(m) + " " + jlist(t) + " -> ";
            if (s.kind == Sel::DEF) {
                row += "def " + std::to_string(s.def);
            } else {
                row += s.kind == Sel::NODEF ? "no_definition" : "ambiguous";
                row += " arity=" + std::to_string(t.size()) + " types=";
                for (int c : t)
                    row += "c" + std::to_string(c) + ",";
            }
            out.rows.push_back(row);
        }
        if (with_next)
            for (size_t d = 0; d < me.defs.size(); ++d) {
                if (!me.def_live[d])
                    continue;
                Sel s = o.next(me, (int)d);
                out.rows.push_back("m" + std::to_string(m) + " next(def " + std::to_string(d) + ") -> " +
                                   (s.kind == Sel::DEF ? "def " + std::to_string(s.def) : s.kind == Sel::NODEF ? "not_implemented" : "ambiguous"));
            }
    }
}

long first_difference(const Behaviour& a, const Behaviour& b) {
    size_t n = std::min(a.rows.size(), b.rows.size());
    for (size_t i = 0; i < n; ++i)
        if (a.rows[i] != b.rows[i])
            return (long)i;
    return a.rows.size() == b.rows.size() ? -1 : (long)n;
}

bool has_mi(const Registry& r) {
    for (auto& b : r.bases)
        if (b.size() > 1)
            return true;
    return false;
}

int count_incomparable(const Registry& r, const Oracle& o) {
    int n = 0;
    for (auto& m : r.methods)
        for (size_t a = 0; a < m.defs.size(); ++a)
            for (size_t b = a + 1; b < m.defs.size(); ++b)
                if (!o.more_specific(m.defs[a], m.defs[b]) && !o.more_specific(m.defs[b], m.defs[a]))
                    ++n;
    return n;
}

std::vector<IWorld*> suitable_worlds(const Run& run, bool want_deferred, bool want_projection) {
    std::vector<IWorld*> out;
    for (auto w : worlds()) {
        if (!run.want_policy(w->name()))
            continue;
        Caps c = w->caps();
        if (c.deferred && !want_deferred)
            continue;
        if (c.projection && !want_projection)
            continue;
        out.push_back(w);
    }
    return out;
}

int pick_flavour(Rng& rng, const Caps& caps, bool need_typeid) {
    if (caps.small_ids)
        return caps.projection ? 6 : 0;
    if (need_typeid)
        return 1;
    if (caps.projection)
        return 5;
    static const int f[] = {0, 1, 1, 2, 3, 4, 4, 5};
    return f[rng.below(8)];
}

} // namespace vf
